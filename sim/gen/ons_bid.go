package gen

// Workload generators for the ONS domain-name transactions ("ons") and for the external BID
// application ("bid"). Both share the session record c.S.M["ons"] (names ever emitted) so that the
// bid generator can bid on names the ons generator created (and creates a few itself otherwise).

import (
	"crypto/sha256"
	"encoding/hex"
	"fmt"
	"math/big"

	"github.com/Oneledger/protocol/action"
	aons "github.com/Oneledger/protocol/action/ons"
	"github.com/Oneledger/protocol/data/balance"
	"github.com/Oneledger/protocol/data/governance"
	"github.com/Oneledger/protocol/data/keys"
	"github.com/Oneledger/protocol/data/ons"
	"github.com/Oneledger/protocol/external_apps/bid/bid_action"
	"github.com/Oneledger/protocol/external_apps/bid/bid_data"

	"olsim/core"
)

// onsBidCrashy enables variants that are known to take the whole application (or the process)
// down on the unchanged tree: BID_CREATE with an unregistered asset type (nil interface call ->
// panic -> app.Close) and BID_CREATE with an unknown currency (nil *Amount deref). Off by default
// because a dead application ends the run.
var onsBidCrashy = false

// ---------------------------------------------------------------------------------------------
// shared session + state view
// ---------------------------------------------------------------------------------------------

type onsSess struct {
	Names  []string          // top-level names whose creation was emitted, in emission order
	Subs   []string          // sub-domain names whose creation was emitted
	Born   map[string]int64  // name -> height of the block the create was emitted for
	Bought map[string]string // name -> address (string) of the last buyer a purchase/bid-accept was emitted for
	Seq    int
	UsedAt int64           // height the Used set belongs to
	Used   map[string]bool // names already touched by a meant-to-be-valid tx of block UsedAt (shared by both generators)
}

func onsSession(c *Ctx) *onsSess {
	if s, ok := c.S.M["ons"].(*onsSess); ok && s != nil {
		return s
	}
	s := &onsSess{Born: map[string]int64{}, Bought: map[string]string{}}
	c.S.M["ons"] = s
	return s
}

type onsView struct {
	c     *Ctx
	s     *onsSess
	base  *big.Int // current BaseDomainPrice (nue)
	per   *big.Int // current PerBlockFees (nue), always > 0 here
	doms  map[string]*ons.Domain
	users map[string]*core.Account
	used  map[string]bool // names already touched by a (meant to be valid) tx of this block
}

func onsBig(s string, def int64) *big.Int {
	b, ok := new(big.Int).SetString(s, 10)
	if !ok {
		return big.NewInt(def)
	}
	return b
}

// onsLoad reads the current ONS options and every tracked name from the committed state.
func onsLoad(c *Ctx) *onsView {
	s := onsSession(c)
	if s.UsedAt != c.H || s.Used == nil {
		s.UsedAt, s.Used = c.H, map[string]bool{}
	}
	v := &onsView{c: c, s: s, doms: map[string]*ons.Domain{}, users: map[string]*core.Account{}, used: s.Used}
	v.base = onsBig(c.W.Knobs.OnsBase, 1000)
	v.per = onsBig(c.W.Knobs.OnsPerBlock, 1)
	for _, u := range c.W.Users {
		v.users[u.Addr.String()] = u
	}
	if c.Ref != nil && c.Ref.App != nil {
		st := c.Ref.ReadState()
		if opt, err := governance.NewStore("g", st).GetONSOptions(); err == nil && opt != nil {
			v.base = new(big.Int).Set(opt.BaseDomainPrice.BigInt())
			if opt.PerBlockFees.BigInt().Sign() > 0 {
				v.per = new(big.Int).Set(opt.PerBlockFees.BigInt())
			}
		}
		ds := ons.NewDomainStore("d", st)
		get := func(n string) {
			if d, err := ds.Get(ons.Name(n)); err == nil && d != nil {
				v.doms[n] = d
			}
		}
		for _, n := range s.Names {
			get(n)
		}
		for _, n := range s.Subs {
			get(n)
		}
	}
	if v.per.Sign() <= 0 {
		v.per = big.NewInt(1)
	}
	// forget names that never materialised (or were deleted)
	prune := func(list []string) []string {
		keep := list[:0]
		for _, n := range list {
			if v.doms[n] != nil || s.Born[n] >= c.H-2 {
				keep = append(keep, n)
			} else {
				delete(s.Born, n)
				delete(s.Bought, n)
			}
		}
		return keep
	}
	s.Names = prune(s.Names)
	s.Subs = prune(s.Subs)
	return v
}

func (v *onsView) acct(a keys.Address) *core.Account { return v.users[a.String()] }

// other returns a random funded user different from all given addresses (nil if none).
func (v *onsView) other(not ...keys.Address) *core.Account {
	var cand []*core.Account
	for _, u := range v.c.W.Users {
		ok := true
		for _, n := range not {
			if u.Addr.Equal(n) {
				ok = false
			}
		}
		if ok {
			cand = append(cand, u)
		}
	}
	if len(cand) == 0 {
		return nil
	}
	return cand[v.c.Rng.Intn(len(cand))]
}

func (v *onsView) anyUser() *core.Account { return v.c.W.Users[v.c.Rng.Intn(len(v.c.W.Users))] }

// pick chooses a random tracked, existing, not yet used name satisfying pred.
func (v *onsView) pick(list []string, pred func(n string, d *ons.Domain) bool) (string, *ons.Domain) {
	var cand []string
	for _, n := range list {
		d := v.doms[n]
		if d == nil || v.used[n] {
			continue
		}
		if pred == nil || pred(n, d) {
			cand = append(cand, n)
		}
	}
	if len(cand) == 0 {
		return "", nil
	}
	n := cand[v.c.Rng.Intn(len(cand))]
	return n, v.doms[n]
}

// height predicates for a transaction executed in block c.H (state version is c.H-1 then)
func (v *onsView) alive(d *ons.Domain) bool              { return d.ExpireHeight >= v.c.H+1 }
func (v *onsView) purchasableExpired(d *ons.Domain) bool { return d.ExpireHeight < v.c.H-1 }
func (v *onsView) owned(d *ons.Domain) bool              { return v.acct(d.Owner) != nil }

func (v *onsView) liveTop() int {
	n := 0
	for _, name := range v.s.Names {
		if d := v.doms[name]; d != nil && v.alive(d) {
			n++
		}
	}
	return n
}

// blocksCost = per * n, with n reduced when governance made blocks very expensive.
func (v *onsView) blocksCost(n int64) *big.Int {
	cost := new(big.Int).Mul(v.per, big.NewInt(n))
	budget := nueOf(100000)
	if cost.Cmp(budget) > 0 {
		k := new(big.Int).Div(budget, v.per)
		if k.Sign() <= 0 {
			k = big.NewInt(1)
		}
		cost = new(big.Int).Mul(v.per, k)
	}
	return cost
}

func (v *onsView) price(n int64) *big.Int { return new(big.Int).Add(v.base, v.blocksCost(n)) }

func onsLetters(c *Ctx, n int, upper bool) string {
	const lo = "abcdefghijklmnopqrstuvwxyz0123456789"
	const up = "abcdefghijklmnopqrstuvwxyzABCDEFGHJKLMNPQRSTUVWXYZ0123456789"
	set := lo
	if upper {
		set = up
	}
	b := make([]byte, n)
	for i := range b {
		b[i] = set[c.Rng.Intn(len(set))]
	}
	return string(b)
}

func (v *onsView) newName() string {
	v.s.Seq++
	return fmt.Sprintf("%s%d.ol", onsLetters(v.c, 2+v.c.Rng.Intn(5), v.c.Rng.Intn(8) == 0), v.s.Seq)
}

func (v *onsView) uri() string {
	switch v.c.Rng.Intn(4) {
	case 0:
		return "https://" + onsLetters(v.c, 5, false) + ".example.org/" + onsLetters(v.c, 4, false)
	case 1:
		return "ipfs://Qm" + onsLetters(v.c, 20, true)
	case 2:
		return "ftp://files." + onsLetters(v.c, 4, false) + ".net"
	}
	return "http://" + onsLetters(v.c, 6, false) + ".ol"
}

func onsAmt(cur string, x *big.Int) action.Amount {
	return action.Amount{Currency: cur, Value: *balance.NewAmountFromBigInt(new(big.Int).Set(x))}
}

func (v *onsView) tx(msg action.Msg, kind string, signer *core.Account) Tx {
	return Tx{Bytes: core.BuildTx(msg, core.DefaultFee(), memo(v.c), signer), Kind: kind}
}

func (v *onsView) track(name string, sub bool) {
	if _, ok := v.s.Born[name]; ok {
		return
	}
	v.s.Born[name] = v.c.H
	if sub {
		v.s.Subs = append(v.s.Subs, name)
	} else {
		v.s.Names = append(v.s.Names, name)
	}
}

// mkCreate builds a DOMAIN_CREATE and tracks the name.
func (v *onsView) mkCreate(owner *core.Account, name string, price action.Amount, benef keys.Address, uri, kind string, track bool) Tx {
	msg := &aons.DomainCreate{Owner: owner.Addr, Beneficiary: benef, Name: ons.Name(name), Uri: uri, BuyingPrice: price}
	if track {
		v.track(name, ons.Name(name).IsSub())
	}
	return v.tx(msg, kind, owner)
}

// ---------------------------------------------------------------------------------------------
// generator "ons"
// ---------------------------------------------------------------------------------------------

type Ons struct{}

func (Ons) Name() string { return "ons" }

func (Ons) Gen(c *Ctx) []Tx {
	if len(c.W.Users) < 3 || c.Ref == nil || c.Ref.App == nil {
		return nil
	}
	v := onsLoad(c)
	var out []Tx
	if v.liveTop() < 3 {
		out = append(out, v.opCreate(false)...)
	}
	n := c.Rng.Intn(3)
	for i := 0; i < n && len(out) < 4; i++ {
		out = append(out, v.step()...)
	}
	if len(out) > 4 {
		out = out[:4]
	}
	return out
}

func (v *onsView) step() []Tx {
	r := v.c.Rng.Intn(100)
	var out []Tx
	switch {
	case r < 7:
		out = v.opCreate(false)
	case r < 12:
		out = v.opCreate(true)
	case r < 21:
		out = v.opCreateSub()
	case r < 32:
		out = v.opUpdate()
	case r < 39:
		out = v.opSell()
	case r < 42:
		out = v.opCancelSale()
	case r < 53:
		if out = v.opPurchaseOnSale(); out == nil {
			out = v.opSell()
		}
	case r < 59:
		if out = v.opPurchaseExpired(); out == nil {
			out = v.opCreate(true)
		}
	case r < 69:
		out = v.opSend()
	case r < 75:
		out = v.opRenew()
	case r < 80:
		if out = v.opDeleteSub(); out == nil {
			out = v.opCreateSub()
		}
	case r < 85:
		out = v.opRace()
	default:
		for try := 0; try < 4 && out == nil; try++ {
			out = v.opHostile()
		}
	}
	if out == nil && v.liveTop() < 10 {
		out = v.opCreate(v.c.Rng.Intn(3) == 0)
	}
	return out
}

// opCreate: a new top-level name; short=true buys only a few blocks so that it expires in the run.
func (v *onsView) opCreate(short bool) []Tx {
	if !short && len(v.s.Names) >= 16 {
		return nil
	}
	if short && len(v.s.Names) >= 22 {
		return nil
	}
	owner := v.anyUser()
	name := v.newName()
	kind := "DOMAIN_CREATE"
	var price *big.Int
	if short {
		price = v.price(int64(2 + v.c.Rng.Intn(7)))
		kind = "DOMAIN_CREATE/short-lived"
	} else {
		price = v.price(int64(100 + v.c.Rng.Intn(3000)))
	}
	var benef keys.Address
	uri := ""
	switch v.c.Rng.Intn(4) {
	case 0:
		// somebody else (the "victim") receives the funds sent to this name: legal
		if o := v.other(owner.Addr); o != nil {
			benef = o.Addr
			if !short {
				kind = "DOMAIN_CREATE/benef-other"
			}
		}
	case 1:
		benef = owner.Addr
	}
	if v.c.Rng.Intn(2) == 0 {
		uri = v.uri()
	}
	v.used[name] = true
	return []Tx{v.mkCreate(owner, name, core.OLT(price), benef, uri, kind, true)}
}

func (v *onsView) subName(parent string) string {
	v.s.Seq++
	n := fmt.Sprintf("%s%d.%s", onsLetters(v.c, 1+v.c.Rng.Intn(4), false), v.s.Seq, parent)
	if v.c.Rng.Intn(7) == 0 {
		n = onsLetters(v.c, 2, false) + "." + n
	}
	return n
}

func (v *onsView) opCreateSub() []Tx {
	if len(v.s.Subs) >= 24 {
		return nil
	}
	pn, p := v.pick(v.s.Names, func(n string, d *ons.Domain) bool { return v.owned(d) && v.alive(d) })
	if p == nil {
		return nil
	}
	owner := v.acct(p.Owner)
	name := v.subName(pn)
	price := new(big.Int).Add(v.base, new(big.Int).Add(big.NewInt(1), bigRand(v.c.Rng, v.blocksCost(10))))
	var benef keys.Address
	if v.c.Rng.Intn(2) == 0 {
		benef = v.anyUser().Addr
	}
	uri := ""
	if v.c.Rng.Intn(3) == 0 {
		uri = v.uri()
	}
	return []Tx{v.mkCreate(owner, name, core.OLT(price), benef, uri, "DOMAIN_CREATE/sub", true)}
}

func (v *onsView) opUpdate() []Tx {
	all := append(append([]string{}, v.s.Names...), v.s.Subs...)
	n, d := v.pick(all, func(n string, d *ons.Domain) bool { return v.owned(d) && v.alive(d) })
	if d == nil {
		return nil
	}
	owner := v.acct(d.Owner)
	msg := &aons.DomainUpdate{Owner: owner.Addr, Name: ons.Name(n), Active: true, Beneficiary: v.anyUser().Addr}
	kind := "DOMAIN_UPDATE"
	if v.s.Bought[n] == owner.Addr.String() {
		kind = "DOMAIN_UPDATE/new-owner"
	}
	switch v.c.Rng.Intn(8) {
	case 0, 1:
		msg.Active = false
		kind = "DOMAIN_UPDATE/deactivate"
	case 2:
		msg.Beneficiary = nil
		kind = "DOMAIN_UPDATE/clear-benef"
	}
	if v.c.Rng.Intn(2) == 0 {
		msg.Uri = v.uri()
	}
	v.used[n] = true
	return []Tx{v.tx(msg, kind, owner)}
}

func (v *onsView) salePrice() *big.Int {
	p := new(big.Int).Add(nueOf(int64(5+v.c.Rng.Intn(3000))), bigRand(v.c.Rng, e18))
	if p.Cmp(v.per) <= 0 {
		p = new(big.Int).Add(v.per, big.NewInt(1+v.c.Rng.Int63n(1000)))
	}
	return p
}

func (v *onsView) opSell() []Tx {
	n, d := v.pick(v.s.Names, func(n string, d *ons.Domain) bool { return v.owned(d) && v.alive(d) && !d.OnSaleFlag })
	kind := "DOMAIN_SELL"
	if d == nil || v.c.Rng.Intn(6) == 0 {
		n2, d2 := v.pick(v.s.Names, func(n string, d *ons.Domain) bool { return v.owned(d) && v.alive(d) && d.OnSaleFlag })
		if d2 != nil {
			n, d, kind = n2, d2, "DOMAIN_SELL/reprice"
		}
	}
	if d == nil {
		return nil
	}
	owner := v.acct(d.Owner)
	msg := &aons.DomainSale{Name: ons.Name(n), OwnerAddress: owner.Addr, Price: core.OLT(v.salePrice())}
	v.used[n] = true
	return []Tx{v.tx(msg, kind, owner)}
}

func (v *onsView) opCancelSale() []Tx {
	n, d := v.pick(v.s.Names, func(n string, d *ons.Domain) bool { return v.owned(d) && v.alive(d) && d.OnSaleFlag })
	if d == nil {
		return nil
	}
	owner := v.acct(d.Owner)
	// the handler checks price > perBlockFees even for a cancellation
	msg := &aons.DomainSale{Name: ons.Name(n), OwnerAddress: owner.Addr, Price: core.OLT(v.salePrice()), CancelSale: true}
	v.used[n] = true
	return []Tx{v.tx(msg, "DOMAIN_SELL/cancel", owner)}
}

func (v *onsView) onSale(n string, d *ons.Domain) bool {
	return d.OnSaleFlag && d.SalePrice != nil && d.ExpireHeight >= v.c.H-1 && v.owned(d)
}

func (v *onsView) mkPurchase(n string, buyer *core.Account, account keys.Address, offering action.Amount, kind string) Tx {
	msg := &aons.DomainPurchase{Name: ons.Name(n), Buyer: buyer.Addr, Account: account, Offering: offering}
	return v.tx(msg, kind, buyer)
}

func (v *onsView) opPurchaseOnSale() []Tx {
	n, d := v.pick(v.s.Names, v.onSale)
	if d == nil {
		return nil
	}
	buyer := v.other(d.Owner)
	if buyer == nil {
		return nil
	}
	kind := "DOMAIN_PURCHASE"
	off := new(big.Int).Set(d.SalePrice.BigInt())
	if v.c.Rng.Intn(5) == 0 {
		kind = "DOMAIN_PURCHASE/exact"
	} else {
		off.Add(off, v.blocksCost(int64(1+v.c.Rng.Intn(400))))
	}
	account := buyer.Addr
	if v.c.Rng.Intn(4) == 0 {
		account = v.anyUser().Addr
	}
	v.used[n] = true
	v.s.Bought[n] = buyer.Addr.String()
	return []Tx{v.mkPurchase(n, buyer, account, core.OLT(off), kind)}
}

func (v *onsView) opPurchaseExpired() []Tx {
	// an expired name that still carries its sale flag, offered the old asking price where that is below the
	// base price (the price of an expired name is the base price, whatever its former owner once asked)
	if v.c.Rng.Intn(3) == 0 {
		if n, d := v.pick(v.s.Names, func(n string, d *ons.Domain) bool {
			return v.purchasableExpired(d) && d.OnSaleFlag && d.SalePrice != nil && d.SalePrice.BigInt().Sign() > 0 && d.SalePrice.BigInt().Cmp(v.base) < 0
		}); d != nil {
			b := v.anyUser()
			off := new(big.Int).Add(d.SalePrice.BigInt(), big.NewInt(v.c.Rng.Int63n(3)))
			return []Tx{v.mkPurchase(n, b, b.Addr, core.OLT(off), "DOMAIN_PURCHASE/expired-on-sale-asking-price")}
		}
	}
	n, d := v.pick(v.s.Names, func(n string, d *ons.Domain) bool { return v.purchasableExpired(d) })
	if d == nil {
		return nil
	}
	buyer := v.anyUser()
	kind := "DOMAIN_PURCHASE/expired"
	if buyer.Addr.Equal(d.Owner) {
		kind = "DOMAIN_PURCHASE/expired-by-owner"
	}
	blocks := int64(100 + v.c.Rng.Intn(2000))
	if v.c.Rng.Intn(3) == 0 {
		blocks = int64(2 + v.c.Rng.Intn(6))
	}
	v.used[n] = true
	v.s.Bought[n] = buyer.Addr.String()
	return []Tx{v.mkPurchase(n, buyer, buyer.Addr, core.OLT(v.price(blocks)), kind)}
}

func (v *onsView) opSend() []Tx {
	all := append(append([]string{}, v.s.Names...), v.s.Subs...)
	n, d := v.pick(all, func(n string, d *ons.Domain) bool { return d.ActiveFlag && v.alive(d) && len(d.Beneficiary) > 0 })
	if d == nil {
		return nil
	}
	from := v.anyUser()
	kind := "DOMAIN_SEND"
	if ons.Name(n).IsSub() {
		kind = "DOMAIN_SEND/sub"
	}
	amt := new(big.Int).Add(big.NewInt(1), bigRand(v.c.Rng, nueOf(1000)))
	msg := &aons.DomainSend{From: from.Addr, Name: ons.Name(n), Amount: core.OLT(amt)}
	// DOMAIN_SEND does not change the name, so the name is not marked used
	return []Tx{v.tx(msg, kind, from)}
}

func (v *onsView) opRenew() []Tx {
	n, d := v.pick(v.s.Names, func(n string, d *ons.Domain) bool { return v.owned(d) && d.ExpireHeight >= v.c.H })
	if d == nil {
		return nil
	}
	owner := v.acct(d.Owner)
	kind := "DOMAIN_RENEW"
	blocks := int64(2 + v.c.Rng.Intn(600))
	if d.ExpireHeight <= v.c.H+2 {
		kind = "DOMAIN_RENEW/last-minute"
	}
	msg := &aons.RenewDomain{Owner: owner.Addr, Name: ons.Name(n), BuyingPrice: core.OLT(v.blocksCost(blocks))}
	v.used[n] = true
	return []Tx{v.tx(msg, kind, owner)}
}

func (v *onsView) parentOf(sub string) (string, *ons.Domain) {
	pn, err := ons.Name(sub).GetParentName()
	if err != nil {
		return "", nil
	}
	return pn.String(), v.doms[pn.String()]
}

func (v *onsView) opDeleteSub() []Tx {
	sn, sd := v.pick(v.s.Subs, func(n string, d *ons.Domain) bool {
		pn, p := v.parentOf(n)
		return p != nil && v.owned(p) && !v.used[pn]
	})
	if sd == nil {
		return nil
	}
	pn, p := v.parentOf(sn)
	owner := v.acct(p.Owner)
	msg := &aons.DeleteSub{Name: ons.Name(sn), Owner: owner.Addr}
	kind := "DOMAIN_DELETE_SUB"
	if v.c.Rng.Intn(4) == 0 {
		msg.Name = ons.Name(pn)
		kind = "DOMAIN_DELETE_SUB/all"
	}
	v.used[sn] = true
	v.used[pn] = true
	return []Tx{v.tx(msg, kind, owner)}
}

// opRace: two (individually reasonable) transactions on the same name in the same block; the block
// order is shuffled by the framework.
func (v *onsView) opRace() []Tx {
	n, d := v.pick(v.s.Names, v.onSale)
	if d == nil || v.c.Rng.Intn(5) == 0 {
		// renew racing with a sub-domain creation (sub created in the same block is invisible to IterateSubDomain)
		pn, p := v.pick(v.s.Names, func(n string, d *ons.Domain) bool { return v.owned(d) && v.alive(d) })
		if p == nil {
			return nil
		}
		owner := v.acct(p.Owner)
		v.used[pn] = true
		renew := &aons.RenewDomain{Owner: owner.Addr, Name: ons.Name(pn), BuyingPrice: core.OLT(v.blocksCost(int64(50 + v.c.Rng.Intn(500))))}
		price := new(big.Int).Add(v.base, big.NewInt(1+v.c.Rng.Int63n(100000)))
		return []Tx{
			v.tx(renew, "DOMAIN_RENEW/race-sub", owner),
			v.mkCreate(owner, v.subName(pn), core.OLT(price), nil, "", "DOMAIN_CREATE/sub-race", true),
		}
	}
	owner := v.acct(d.Owner)
	buyer := v.other(d.Owner)
	if buyer == nil {
		return nil
	}
	v.used[n] = true
	off := new(big.Int).Add(d.SalePrice.BigInt(), v.blocksCost(int64(1+v.c.Rng.Intn(300))))
	switch v.c.Rng.Intn(4) {
	case 0:
		cancel := &aons.DomainSale{Name: ons.Name(n), OwnerAddress: owner.Addr, Price: core.OLT(v.salePrice()), CancelSale: true}
		return []Tx{v.mkPurchase(n, buyer, buyer.Addr, core.OLT(off), "DOMAIN_PURCHASE/race-cancel"), v.tx(cancel, "DOMAIN_SELL/cancel-race", owner)}
	case 1:
		upd := &aons.DomainUpdate{Owner: owner.Addr, Name: ons.Name(n), Active: true, Beneficiary: owner.Addr, Uri: v.uri()}
		return []Tx{v.mkPurchase(n, buyer, buyer.Addr, core.OLT(off), "DOMAIN_PURCHASE/race-update"), v.tx(upd, "DOMAIN_UPDATE/race", owner)}
	case 2:
		b2 := v.other(d.Owner, buyer.Addr)
		if b2 == nil {
			b2 = buyer
		}
		return []Tx{v.mkPurchase(n, buyer, buyer.Addr, core.OLT(off), "DOMAIN_PURCHASE/race-double"), v.mkPurchase(n, b2, b2.Addr, core.OLT(off), "DOMAIN_PURCHASE/race-double")}
	default:
		// the seller creates a sub-domain in the very block the name is bought
		price := new(big.Int).Add(v.base, big.NewInt(1+v.c.Rng.Int63n(100000)))
		return []Tx{
			v.mkPurchase(n, buyer, buyer.Addr, core.OLT(off), "DOMAIN_PURCHASE/race-sub"),
			v.mkCreate(owner, v.subName(n), core.OLT(price), nil, "", "DOMAIN_CREATE/sub-race", true),
		}
	}
}

// ---------------------------------------------------------------------------------------------
// ons: hostile / invalid variants (each returns nil when its precondition does not hold)
// ---------------------------------------------------------------------------------------------

var onsHuge = new(big.Int).Exp(big.NewInt(10), big.NewInt(40), nil)

// victim: any existing top-level name with a known owner, plus a stranger.
func (v *onsView) victim(pred func(n string, d *ons.Domain) bool) (string, *ons.Domain, *core.Account, *core.Account) {
	n, d := v.pick(v.s.Names, func(n string, d *ons.Domain) bool { return v.owned(d) && (pred == nil || pred(n, d)) })
	if d == nil {
		return "", nil, nil, nil
	}
	owner := v.acct(d.Owner)
	stranger := v.other(d.Owner)
	if stranger == nil {
		return "", nil, nil, nil
	}
	return n, d, owner, stranger
}

func (v *onsView) badAmount() (action.Amount, string) {
	switch v.c.Rng.Intn(6) {
	case 0:
		return core.OLTi(0), "zero"
	case 1:
		return core.OLT(new(big.Int).Neg(new(big.Int).Add(big.NewInt(1), bigRand(v.c.Rng, nueOf(5000))))), "negative"
	case 2:
		return core.OLT(onsHuge), "huge"
	case 3:
		return onsAmt("XYZ", v.price(100)), "currency-unknown"
	case 4:
		return onsAmt("VT", v.price(100)), "currency-VT"
	}
	return onsAmt("ETH", v.price(100)), "currency-ETH"
}

func (v *onsView) badName() string {
	switch v.c.Rng.Intn(9) {
	case 0:
		return onsLetters(v.c, 5, false) + ".com"
	case 1:
		return onsLetters(v.c, 3, false) + "_" + onsLetters(v.c, 2, false) + ".ol"
	case 2:
		return ".ol"
	case 3:
		return onsLetters(v.c, 300, false) + ".ol"
	case 4:
		return onsLetters(v.c, 4, false) + "..ol"
	case 5:
		return onsLetters(v.c, 4, false) + ".o"
	case 6:
		return onsLetters(v.c, 4, false)
	case 7:
		return onsLetters(v.c, 3, false) + "-" + onsLetters(v.c, 3, false) + ".ol"
	}
	return onsLetters(v.c, 4, false) + ".ol "
}

func (v *onsView) opHostile() []Tx {
	c := v.c
	switch c.Rng.Intn(26) {
	case 0: // stranger updates someone else's name
		n, _, _, s := v.victim(nil)
		if s == nil {
			return nil
		}
		msg := &aons.DomainUpdate{Owner: s.Addr, Name: ons.Name(n), Active: c.Rng.Intn(2) == 0, Beneficiary: s.Addr, Uri: v.uri()}
		return []Tx{v.tx(msg, "DOMAIN_UPDATE/stranger", s)}
	case 1: // stranger puts someone else's name on sale (or cancels the sale)
		n, d, _, s := v.victim(func(n string, d *ons.Domain) bool { return v.alive(d) })
		if s == nil {
			return nil
		}
		msg := &aons.DomainSale{Name: ons.Name(n), OwnerAddress: s.Addr, Price: core.OLT(new(big.Int).Add(v.per, big.NewInt(1))), CancelSale: d.OnSaleFlag && c.Rng.Intn(2) == 0}
		return []Tx{v.tx(msg, "DOMAIN_SELL/stranger", s)}
	case 2:
		n, _, _, s := v.victim(func(n string, d *ons.Domain) bool { return v.alive(d) })
		if s == nil {
			return nil
		}
		msg := &aons.RenewDomain{Owner: s.Addr, Name: ons.Name(n), BuyingPrice: core.OLT(v.blocksCost(100))}
		return []Tx{v.tx(msg, "DOMAIN_RENEW/stranger", s)}
	case 3: // stranger deletes sub-domains of someone else's parent
		sn, sd := v.pick(v.s.Subs, func(n string, d *ons.Domain) bool { _, p := v.parentOf(n); return p != nil })
		if sd == nil {
			return nil
		}
		pn, p := v.parentOf(sn)
		s := v.other(p.Owner)
		if s == nil {
			return nil
		}
		msg := &aons.DeleteSub{Name: ons.Name(sn), Owner: s.Addr}
		if c.Rng.Intn(3) == 0 {
			msg.Name = ons.Name(pn)
		}
		return []Tx{v.tx(msg, "DOMAIN_DELETE_SUB/stranger", s)}
	case 4: // sub-domain under someone else's parent
		n, _, _, s := v.victim(nil)
		if s == nil {
			return nil
		}
		price := new(big.Int).Add(v.base, big.NewInt(1000))
		return []Tx{v.mkCreate(s, v.subName(n), core.OLT(price), s.Addr, "", "DOMAIN_CREATE/sub-foreign-parent", false)}
	case 5: // purchase below the asking price
		n, d := v.pick(v.s.Names, v.onSale)
		if d == nil {
			return nil
		}
		b := v.other(d.Owner)
		if b == nil {
			return nil
		}
		off := new(big.Int).Sub(d.SalePrice.BigInt(), big.NewInt(1))
		if c.Rng.Intn(2) == 0 {
			off = new(big.Int).Div(d.SalePrice.BigInt(), big.NewInt(2))
		}
		return []Tx{v.mkPurchase(n, b, b.Addr, core.OLT(off), "DOMAIN_PURCHASE/below-ask")}
	case 6: // purchase of a name that is neither on sale nor expired
		n, _, _, s := v.victim(func(n string, d *ons.Domain) bool { return !d.OnSaleFlag && v.alive(d) })
		if s == nil {
			return nil
		}
		return []Tx{v.mkPurchase(n, s, s.Addr, core.OLT(v.price(1000)), "DOMAIN_PURCHASE/not-on-sale")}
	case 7: // create a name that exists already
		n, _, o, s := v.victim(nil)
		if s == nil {
			return nil
		}
		who := s
		if c.Rng.Intn(3) == 0 {
			who = o
		}
		return []Tx{v.mkCreate(who, n, core.OLT(v.price(500)), who.Addr, "", "DOMAIN_CREATE/exists", false)}
	case 8:
		u := v.anyUser()
		return []Tx{v.mkCreate(u, v.badName(), core.OLT(v.price(500)), u.Addr, "", "DOMAIN_CREATE/invalid-name", false)}
	case 9: // payment below / exactly at the base price
		u := v.anyUser()
		if c.Rng.Intn(2) == 0 {
			return []Tx{v.mkCreate(u, v.newName(), core.OLT(v.base), u.Addr, "", "DOMAIN_CREATE/at-base", false)}
		}
		p := bigRand(c.Rng, v.base)
		return []Tx{v.mkCreate(u, v.newName(), core.OLT(p), u.Addr, "", "DOMAIN_CREATE/below-base", false)}
	case 10:
		u := v.anyUser()
		a, l := v.badAmount()
		return []Tx{v.mkCreate(u, v.newName(), a, u.Addr, "", "DOMAIN_CREATE/"+l, false)}
	case 11: // bad amounts sent to a name
		all := append(append([]string{}, v.s.Names...), v.s.Subs...)
		n, d := v.pick(all, func(n string, d *ons.Domain) bool { return d.ActiveFlag && v.alive(d) })
		if d == nil {
			return nil
		}
		u := v.anyUser()
		a, l := v.badAmount()
		if c.Rng.Intn(4) == 0 {
			a, l = core.OLT(new(big.Int).Add(c.Ref.BalanceOf(u.Addr, "OLT"), big.NewInt(1))), "overdraw"
		}
		msg := &aons.DomainSend{From: u.Addr, Name: ons.Name(n), Amount: a}
		return []Tx{v.tx(msg, "DOMAIN_SEND/"+l, u)}
	case 12: // send to a name that cannot receive
		u := v.anyUser()
		amt := core.OLT(new(big.Int).Add(big.NewInt(1), bigRand(c.Rng, nueOf(100))))
		switch c.Rng.Intn(3) {
		case 0:
			n, d := v.pick(v.s.Names, func(n string, d *ons.Domain) bool { return !d.ActiveFlag && v.alive(d) })
			if d == nil {
				return nil
			}
			return []Tx{v.tx(&aons.DomainSend{From: u.Addr, Name: ons.Name(n), Amount: amt}, "DOMAIN_SEND/inactive", u)}
		case 1:
			n, d := v.pick(v.s.Names, func(n string, d *ons.Domain) bool { return d.ExpireHeight < c.H-1 })
			if d == nil {
				return nil
			}
			return []Tx{v.tx(&aons.DomainSend{From: u.Addr, Name: ons.Name(n), Amount: amt}, "DOMAIN_SEND/expired", u)}
		}
		return []Tx{v.tx(&aons.DomainSend{From: u.Addr, Name: ons.Name("nosuch" + onsLetters(c, 4, false) + ".ol"), Amount: amt}, "DOMAIN_SEND/no-such-name", u)}
	case 13: // renew: expired name, too small payment, negative payment, sub-domain
		switch c.Rng.Intn(4) {
		case 0:
			n, d, o, _ := v.victim(func(n string, d *ons.Domain) bool { return d.ExpireHeight < c.H-1 })
			if d == nil {
				return nil
			}
			return []Tx{v.tx(&aons.RenewDomain{Owner: o.Addr, Name: ons.Name(n), BuyingPrice: core.OLT(v.blocksCost(100))}, "DOMAIN_RENEW/expired", o)}
		case 1:
			n, d, o, _ := v.victim(func(n string, d *ons.Domain) bool { return v.alive(d) })
			if d == nil {
				return nil
			}
			p := v.per
			if c.Rng.Intn(2) == 0 {
				p = bigRand(c.Rng, v.per)
			}
			return []Tx{v.tx(&aons.RenewDomain{Owner: o.Addr, Name: ons.Name(n), BuyingPrice: core.OLT(p)}, "DOMAIN_RENEW/below-fee", o)}
		case 2:
			n, d, o, _ := v.victim(func(n string, d *ons.Domain) bool { return v.alive(d) })
			if d == nil {
				return nil
			}
			a, l := v.badAmount()
			return []Tx{v.tx(&aons.RenewDomain{Owner: o.Addr, Name: ons.Name(n), BuyingPrice: a}, "DOMAIN_RENEW/"+l, o)}
		}
		sn, sd := v.pick(v.s.Subs, func(n string, d *ons.Domain) bool { return v.owned(d) })
		if sd == nil {
			return nil
		}
		o := v.acct(sd.Owner)
		return []Tx{v.tx(&aons.RenewDomain{Owner: o.Addr, Name: ons.Name(sn), BuyingPrice: core.OLT(v.blocksCost(100))}, "DOMAIN_RENEW/sub", o)}
	case 14: // sale: sub-domain, expired, price too low, bad amounts, cancel with zero price
		switch c.Rng.Intn(5) {
		case 0:
			sn, sd := v.pick(v.s.Subs, func(n string, d *ons.Domain) bool { return v.owned(d) })
			if sd == nil {
				return nil
			}
			o := v.acct(sd.Owner)
			return []Tx{v.tx(&aons.DomainSale{Name: ons.Name(sn), OwnerAddress: o.Addr, Price: core.OLT(v.salePrice())}, "DOMAIN_SELL/sub", o)}
		case 1:
			n, d, o, _ := v.victim(func(n string, d *ons.Domain) bool { return d.ExpireHeight < c.H })
			if d == nil {
				return nil
			}
			return []Tx{v.tx(&aons.DomainSale{Name: ons.Name(n), OwnerAddress: o.Addr, Price: core.OLT(v.salePrice())}, "DOMAIN_SELL/expired", o)}
		case 2:
			n, d, o, _ := v.victim(func(n string, d *ons.Domain) bool { return v.alive(d) })
			if d == nil {
				return nil
			}
			return []Tx{v.tx(&aons.DomainSale{Name: ons.Name(n), OwnerAddress: o.Addr, Price: core.OLT(bigRand(c.Rng, new(big.Int).Add(v.per, big.NewInt(1))))}, "DOMAIN_SELL/price-low", o)}
		case 3:
			n, d, o, _ := v.victim(func(n string, d *ons.Domain) bool { return v.alive(d) })
			if d == nil {
				return nil
			}
			a, l := v.badAmount()
			return []Tx{v.tx(&aons.DomainSale{Name: ons.Name(n), OwnerAddress: o.Addr, Price: a}, "DOMAIN_SELL/"+l, o)}
		}
		n, d, o, _ := v.victim(func(n string, d *ons.Domain) bool { return v.alive(d) && d.OnSaleFlag })
		if d == nil {
			return nil
		}
		return []Tx{v.tx(&aons.DomainSale{Name: ons.Name(n), OwnerAddress: o.Addr, Price: core.OLTi(0), CancelSale: true}, "DOMAIN_SELL/cancel-zero-price", o)}
	case 15: // purchase: own name, overdraw, unknown name, sub-domain, bad amount, expired below base
		switch c.Rng.Intn(6) {
		case 0:
			n, d := v.pick(v.s.Names, v.onSale)
			if d == nil {
				return nil
			}
			o := v.acct(d.Owner)
			return []Tx{v.mkPurchase(n, o, o.Addr, core.OLT(new(big.Int).Add(d.SalePrice.BigInt(), v.blocksCost(10))), "DOMAIN_PURCHASE/own")}
		case 1:
			n, d := v.pick(v.s.Names, v.onSale)
			if d == nil {
				return nil
			}
			b := v.other(d.Owner)
			if b == nil {
				return nil
			}
			off := new(big.Int).Add(c.Ref.BalanceOf(b.Addr, "OLT"), new(big.Int).Add(d.SalePrice.BigInt(), big.NewInt(1)))
			return []Tx{v.mkPurchase(n, b, b.Addr, core.OLT(off), "DOMAIN_PURCHASE/overdraw")}
		case 2:
			b := v.anyUser()
			return []Tx{v.mkPurchase("nosuch"+onsLetters(c, 4, false)+".ol", b, b.Addr, core.OLT(v.price(100)), "DOMAIN_PURCHASE/no-such-name")}
		case 3:
			sn, sd := v.pick(v.s.Subs, nil)
			if sd == nil {
				return nil
			}
			b := v.other(sd.Owner)
			if b == nil {
				return nil
			}
			return []Tx{v.mkPurchase(sn, b, b.Addr, core.OLT(v.price(100)), "DOMAIN_PURCHASE/sub")}
		case 4:
			n, d := v.pick(v.s.Names, func(n string, d *ons.Domain) bool { return v.onSale(n, d) || v.purchasableExpired(d) })
			if d == nil {
				return nil
			}
			b := v.other(d.Owner)
			if b == nil {
				return nil
			}
			a, l := v.badAmount()
			return []Tx{v.mkPurchase(n, b, b.Addr, a, "DOMAIN_PURCHASE/"+l)}
		}
		// an expired name that still carries its sale flag, offered the old asking price (below the base price)
		if n, d := v.pick(v.s.Names, func(n string, d *ons.Domain) bool {
			return v.purchasableExpired(d) && d.OnSaleFlag && d.SalePrice != nil && d.SalePrice.BigInt().Sign() > 0 && d.SalePrice.BigInt().Cmp(v.base) < 0
		}); d != nil && c.Rng.Intn(3) > 0 {
			b := v.anyUser()
			off := new(big.Int).Add(d.SalePrice.BigInt(), big.NewInt(c.Rng.Int63n(3)))
			return []Tx{v.mkPurchase(n, b, b.Addr, core.OLT(off), "DOMAIN_PURCHASE/expired-on-sale-asking-price")}
		}
		n, d := v.pick(v.s.Names, func(n string, d *ons.Domain) bool { return v.purchasableExpired(d) })
		if d == nil {
			return nil
		}
		b := v.anyUser()
		return []Tx{v.mkPurchase(n, b, b.Addr, core.OLT(bigRand(c.Rng, v.base)), "DOMAIN_PURCHASE/expired-below-base")}
	case 16: // the message names the real owner / a rich sender, but a stranger signed it (only Validate checks signatures)
		if c.Rng.Intn(2) == 0 {
			n, _, o, s := v.victim(func(n string, d *ons.Domain) bool { return v.alive(d) })
			if s == nil {
				return nil
			}
			msg := &aons.DomainUpdate{Owner: o.Addr, Name: ons.Name(n), Active: true, Beneficiary: s.Addr}
			return []Tx{v.tx(msg, "DOMAIN_UPDATE/forged-sig", s)}
		}
		all := append(append([]string{}, v.s.Names...), v.s.Subs...)
		n, d := v.pick(all, func(n string, d *ons.Domain) bool { return d.ActiveFlag && v.alive(d) && len(d.Beneficiary) > 0 })
		if d == nil {
			return nil
		}
		s := v.anyUser()
		vic := v.other(s.Addr, d.Beneficiary)
		if vic == nil {
			return nil
		}
		msg := &aons.DomainSend{From: vic.Addr, Name: ons.Name(n), Amount: core.OLT(nueOf(int64(1 + c.Rng.Intn(50))))}
		return []Tx{v.tx(msg, "DOMAIN_SEND/forged-sig", s)}
	case 17: // invalid URI
		bad := []string{"gopher://old.example", "javascript:alert(1)", "://nothing", "mailto:x@example.org", "%zz", "noscheme.example.org"}
		uri := bad[c.Rng.Intn(len(bad))]
		if c.Rng.Intn(2) == 0 {
			u := v.anyUser()
			msg := &aons.DomainCreate{Owner: u.Addr, Beneficiary: u.Addr, Name: ons.Name(v.newName()), Uri: uri, BuyingPrice: core.OLT(v.price(300))}
			return []Tx{v.tx(msg, "DOMAIN_CREATE/bad-uri", u)}
		}
		n, _, o, _ := v.victim(func(n string, d *ons.Domain) bool { return v.alive(d) })
		if o == nil {
			return nil
		}
		return []Tx{v.tx(&aons.DomainUpdate{Owner: o.Addr, Name: ons.Name(n), Active: true, Beneficiary: o.Addr, Uri: uri}, "DOMAIN_UPDATE/bad-uri", o)}
	case 18: // the same owner updates twice in one block: the second one must hit "not changeable"
		n, _, o, _ := v.victim(func(n string, d *ons.Domain) bool { return v.alive(d) })
		if o == nil {
			return nil
		}
		v.used[n] = true
		a := &aons.DomainUpdate{Owner: o.Addr, Name: ons.Name(n), Active: true, Beneficiary: v.anyUser().Addr, Uri: v.uri()}
		b := &aons.DomainUpdate{Owner: o.Addr, Name: ons.Name(n), Active: true, Beneficiary: v.anyUser().Addr, Uri: v.uri()}
		return []Tx{v.tx(a, "DOMAIN_UPDATE/twice", o), v.tx(b, "DOMAIN_UPDATE/twice", o)}
	case 19: // sub-domain deletions that cannot work; sub-domain without a parent
		switch c.Rng.Intn(3) {
		case 0:
			sn, sd := v.pick(v.s.Subs, func(n string, d *ons.Domain) bool {
				pn, p := v.parentOf(n)
				return p != nil && v.owned(p) && !v.used[pn]
			})
			if sd == nil {
				return nil
			}
			pn, p := v.parentOf(sn)
			o := v.acct(p.Owner)
			v.used[sn], v.used[pn] = true, true
			return []Tx{v.tx(&aons.DeleteSub{Name: ons.Name(sn), Owner: o.Addr}, "DOMAIN_DELETE_SUB/twice", o), v.tx(&aons.DeleteSub{Name: ons.Name(sn), Owner: o.Addr}, "DOMAIN_DELETE_SUB/twice", o)}
		case 1:
			n, _, o, _ := v.victim(nil)
			if o == nil {
				return nil
			}
			return []Tx{v.tx(&aons.DeleteSub{Name: ons.Name("ghost" + onsLetters(c, 3, false) + "." + n), Owner: o.Addr}, "DOMAIN_DELETE_SUB/no-such-sub", o)}
		}
		u := v.anyUser()
		name := "x" + onsLetters(c, 2, false) + ".orphan" + onsLetters(c, 4, false) + ".ol"
		return []Tx{v.mkCreate(u, name, core.OLT(new(big.Int).Add(v.base, big.NewInt(5))), u.Addr, "", "DOMAIN_CREATE/sub-no-parent", false)}
	case 20: // owner operates on his expired name (update / sub-domain creation are not guarded by expiry)
		n, d, o, _ := v.victim(func(n string, d *ons.Domain) bool { return d.ExpireHeight < c.H-1 })
		if d == nil {
			return nil
		}
		if c.Rng.Intn(2) == 0 {
			return []Tx{v.tx(&aons.DomainUpdate{Owner: o.Addr, Name: ons.Name(n), Active: true, Beneficiary: o.Addr}, "DOMAIN_UPDATE/expired", o)}
		}
		return []Tx{v.mkCreate(o, v.subName(n), core.OLT(new(big.Int).Add(v.base, big.NewInt(7))), o.Addr, "", "DOMAIN_CREATE/sub-expired-parent", true)}
	case 21: // deactivate without a beneficiary (only Validate rejects it)
		n, _, o, _ := v.victim(func(n string, d *ons.Domain) bool { return v.alive(d) })
		if o == nil {
			return nil
		}
		v.used[n] = true
		return []Tx{v.tx(&aons.DomainUpdate{Owner: o.Addr, Name: ons.Name(n), Active: false}, "DOMAIN_UPDATE/deactivate-nil-benef", o)}
	case 22: // expiry arithmetic overflow: only reachable when governance made blocks very cheap
		u := v.anyUser()
		need := new(big.Int).Mul(v.per, new(big.Int).Lsh(big.NewInt(1), 63))
		need.Add(need, v.base)
		need.Add(need, v.per)
		if need.Cmp(c.Ref.BalanceOf(u.Addr, "OLT")) >= 0 {
			return nil
		}
		return []Tx{v.mkCreate(u, v.newName(), core.OLT(need), u.Addr, "", "DOMAIN_CREATE/overflow-expiry", true)}
	case 23: // delete-sub / update with an invalid or unknown name
		u := v.anyUser()
		if c.Rng.Intn(2) == 0 {
			return []Tx{v.tx(&aons.DomainUpdate{Owner: u.Addr, Name: ons.Name(v.badName()), Active: true, Beneficiary: u.Addr}, "DOMAIN_UPDATE/invalid-name", u)}
		}
		return []Tx{v.tx(&aons.DeleteSub{Name: ons.Name(v.badName()), Owner: u.Addr}, "DOMAIN_DELETE_SUB/invalid-name", u)}
	case 24: // owner = buyer account of a different user (Account field is free): purchase crediting a victim as beneficiary
		n, d := v.pick(v.s.Names, v.onSale)
		if d == nil {
			return nil
		}
		b := v.other(d.Owner)
		if b == nil {
			return nil
		}
		v.used[n] = true
		v.s.Bought[n] = b.Addr.String()
		off := new(big.Int).Add(d.SalePrice.BigInt(), v.blocksCost(50))
		return []Tx{v.mkPurchase(n, b, nil, core.OLT(off), "DOMAIN_PURCHASE/nil-account")}
	default: // empty owner / empty name
		u := v.anyUser()
		if c.Rng.Intn(2) == 0 {
			msg := &aons.DomainCreate{Owner: u.Addr, Beneficiary: u.Addr, Name: "", BuyingPrice: core.OLT(v.price(10))}
			return []Tx{v.tx(msg, "DOMAIN_CREATE/empty-name", u)}
		}
		msg := &aons.DomainSend{From: u.Addr, Name: "", Amount: core.OLTi(5)}
		return []Tx{v.tx(msg, "DOMAIN_SEND/empty-name", u)}
	}
}

func init() {
	Register(Ons{})
}

// ---------------------------------------------------------------------------------------------
// generator "bid": the external bid application (asset = ONS top-level name)
// ---------------------------------------------------------------------------------------------

type Bid struct{}

func (Bid) Name() string { return "bid" }

type bidSess struct {
	Closed []string // ids of conversations a closing action was emitted for (most recent last)
}

func bidSession(c *Ctx) *bidSess {
	if s, ok := c.S.M["bid"].(*bidSess); ok && s != nil {
		return s
	}
	s := &bidSess{}
	c.S.M["bid"] = s
	return s
}

type bidConvView struct {
	conv  *bid_data.BidConv
	offer *bid_data.BidOffer // the single active offer of the conversation (nil if unreadable)
}

type bidView struct {
	*onsView
	bs    *bidSess
	convs []bidConvView
	now   int64 // simulated clock (unix seconds) after the last block
	busy  map[string]bool
}

func bidLoad(c *Ctx) *bidView {
	b := &bidView{onsView: onsLoad(c), bs: bidSession(c), busy: map[string]bool{}}
	if c.E != nil && c.E.C != nil {
		b.now = c.E.C.SimTime.Unix()
	} else {
		b.now = c.W.GenTime.Unix() + c.H*c.W.Knobs.BlockSeconds
	}
	bm := bid_data.NewBidMasterStore(c.Ref.App.VerifChainState())
	bm.BidConv.WithPrefixType(bid_data.BidStateActive).Iterate(func(id bid_data.BidConvId, bc *bid_data.BidConv) bool {
		if bc != nil && len(b.convs) < 64 {
			cp := *bc
			b.convs = append(b.convs, bidConvView{conv: &cp})
		}
		return false
	})
	for i := range b.convs {
		if o, err := bm.BidOffer.GetActiveOffer(b.convs[i].conv.BidConvId, bid_data.TypeInvalid); err == nil && o != nil {
			b.convs[i].offer = o
		}
	}
	return b
}

// biddable: a top-level name a bid can be placed on in block c.H.
func (b *bidView) biddable(n string, d *ons.Domain) bool {
	return b.owned(d) && !d.OnSaleFlag && d.ExpireHeight >= b.c.H+2
}

func (b *bidView) deadline(short bool) int64 {
	if short {
		return b.now + 25 + b.c.Rng.Int63n(50)
	}
	return b.now + 300 + b.c.Rng.Int63n(4000)
}

func (b *bidView) btx(msg action.Msg, kind string, signer *core.Account) Tx {
	return b.tx(msg, kind, signer)
}

func (b *bidView) close(id bid_data.BidConvId) {
	b.bs.Closed = append(b.bs.Closed, string(id))
	if len(b.bs.Closed) > 12 {
		b.bs.Closed = b.bs.Closed[len(b.bs.Closed)-12:]
	}
}

func (Bid) Gen(c *Ctx) []Tx {
	if len(c.W.Users) < 3 || c.Ref == nil || c.Ref.App == nil {
		return nil
	}
	b := bidLoad(c)
	var out []Tx
	// the bid application needs names: make some when the ons generator is not around (or too slow)
	nb := 0
	for _, n := range b.s.Names {
		if d := b.doms[n]; d != nil && b.biddable(n, d) {
			nb++
		}
	}
	pending := 0
	for _, n := range b.s.Names {
		if b.doms[n] == nil {
			pending++
		}
	}
	if nb+pending < 3 && len(b.s.Names) < 22 {
		owner := b.anyUser()
		name := b.newName()
		out = append(out, b.mkCreate(owner, name, core.OLT(b.price(int64(500+c.Rng.Intn(3000)))), owner.Addr, "", "DOMAIN_CREATE/for-bid", true))
	}
	n := c.Rng.Intn(4)
	for i := 0; i < n && len(out) < 4; i++ {
		out = append(out, b.step()...)
	}
	if len(out) > 4 {
		out = out[:4]
	}
	return out
}

func (b *bidView) step() []Tx {
	r := b.c.Rng.Intn(100)
	var out []Tx
	switch {
	case r < 22:
		if len(b.convs) < 3 || (len(b.convs) < 6 && b.c.Rng.Intn(3) == 0) {
			out = b.opCreateBid()
		} else {
			out = b.opProgress()
		}
	case r < 80:
		if out = b.opProgress(); out == nil {
			out = b.opCreateBid()
		}
	default:
		for try := 0; try < 4 && out == nil; try++ {
			out = b.opHostile()
		}
	}
	return out
}

func (b *bidView) bidAmount() *big.Int {
	return new(big.Int).Add(nueOf(int64(1+b.c.Rng.Intn(2000))), bigRand(b.c.Rng, e18))
}

func (b *bidView) hasConv(owner, bidder keys.Address, name string) bool {
	for _, cv := range b.convs {
		if cv.conv.AssetName == name && cv.conv.AssetOwner.Equal(owner) && cv.conv.Bidder.Equal(bidder) {
			return true
		}
	}
	return false
}

func (b *bidView) opCreateBid() []Tx {
	n, d := b.pick(b.s.Names, b.biddable)
	if d == nil {
		return nil
	}
	bidder := b.other(d.Owner)
	if bidder == nil || b.hasConv(d.Owner, bidder.Addr, n) || b.busy[n+bidder.Addr.String()] {
		return nil
	}
	b.busy[n+bidder.Addr.String()] = true
	kind := "BID_CREATE"
	short := b.c.Rng.Intn(4) == 0
	if short {
		kind = "BID_CREATE/short-deadline"
	}
	msg := &bid_action.CreateBid{AssetOwner: d.Owner, AssetName: n, AssetType: bid_data.BidAssetOns, Bidder: bidder.Addr,
		Amount: core.OLT(b.bidAmount()), Deadline: b.deadline(short)}
	return []Tx{b.btx(msg, kind, bidder)}
}

// pickConv chooses an active conversation not yet used in this block.
func (b *bidView) pickConv(pred func(cv bidConvView) bool) *bidConvView {
	var cand []int
	for i, cv := range b.convs {
		if b.busy[string(cv.conv.BidConvId)] || cv.offer == nil {
			continue
		}
		if pred == nil || pred(cv) {
			cand = append(cand, i)
		}
	}
	if len(cand) == 0 {
		return nil
	}
	return &b.convs[cand[b.c.Rng.Intn(len(cand))]]
}

// assetOK: the conversation can still be decided in block c.H (asset unchanged, deadline not passed).
func (b *bidView) assetOK(cv bidConvView) bool {
	if cv.conv.DeadlineUTC < b.now+20 {
		return false
	}
	if cv.conv.AssetType != bid_data.BidAssetOns {
		return true
	}
	d := b.doms[cv.conv.AssetName]
	return d != nil && d.Owner.Equal(cv.conv.AssetOwner) && !d.OnSaleFlag && d.ExpireHeight >= b.c.H+1
}

func (b *bidView) opProgress() []Tx {
	cv := b.pickConv(func(cv bidConvView) bool {
		return b.acct(cv.conv.AssetOwner) != nil && b.acct(cv.conv.Bidder) != nil
	})
	if cv == nil {
		return nil
	}
	id := cv.conv.BidConvId
	owner, bidder := b.acct(cv.conv.AssetOwner), b.acct(cv.conv.Bidder)
	b.busy[string(id)] = true
	r := b.c.Rng.Intn(100)
	if !b.assetOK(*cv) {
		// nothing but a cancellation can work (and only before the deadline); mostly wait for the expiry
		if r < 35 {
			b.close(id)
			return []Tx{b.btx(&bid_action.CancelBid{BidConvId: id, Bidder: bidder.Addr}, "BID_CANCEL/stale-asset", bidder)}
		}
		return nil
	}
	amt := cv.offer.Amount.Value.BigInt()
	accept := func() {
		if cv.conv.AssetType == bid_data.BidAssetOns {
			b.s.Bought[cv.conv.AssetName] = bidder.Addr.String()
			b.used[cv.conv.AssetName] = true
		}
		b.close(id)
	}
	if cv.offer.OfferType == bid_data.TypeBidOffer {
		switch {
		case r < 42: // owner asks for more
			more := new(big.Int).Add(amt, new(big.Int).Add(big.NewInt(1), bigRand(b.c.Rng, new(big.Int).Add(new(big.Int).Abs(amt), nueOf(10)))))
			return []Tx{b.btx(&bid_action.CounterOffer{BidConvId: id, AssetOwner: owner.Addr, Amount: core.OLT(more)}, "BID_CONTER_OFFER", owner)}
		case r < 64:
			accept()
			return []Tx{b.btx(&bid_action.OwnerDecision{BidConvId: id, Owner: owner.Addr, Decision: bid_data.AcceptBid}, "BID_OWNER_DECISION/accept", owner)}
		case r < 74:
			b.close(id)
			return []Tx{b.btx(&bid_action.OwnerDecision{BidConvId: id, Owner: owner.Addr, Decision: bid_data.RejectBid}, "BID_OWNER_DECISION/reject", owner)}
		case r < 84:
			b.close(id)
			return []Tx{b.btx(&bid_action.CancelBid{BidConvId: id, Bidder: bidder.Addr}, "BID_CANCEL", bidder)}
		}
		return nil // let it sit (it may expire)
	}
	// a counter offer is active: the bidder is to move
	switch {
	case r < 35:
		accept()
		return []Tx{b.btx(&bid_action.BidderDecision{BidConvId: id, Bidder: bidder.Addr, Decision: bid_data.AcceptBid}, "BID_BIDDER_DECISION/accept", bidder)}
	case r < 48:
		b.close(id)
		return []Tx{b.btx(&bid_action.BidderDecision{BidConvId: id, Bidder: bidder.Addr, Decision: bid_data.RejectBid}, "BID_BIDDER_DECISION/reject", bidder)}
	case r < 78: // a new, lower bid inside the conversation
		if amt.Sign() <= 0 {
			return nil
		}
		lower := new(big.Int).Sub(amt, new(big.Int).Add(big.NewInt(1), bigRand(b.c.Rng, new(big.Int).Div(amt, big.NewInt(2)))))
		if lower.Sign() <= 0 {
			return nil
		}
		return []Tx{b.btx(&bid_action.CreateBid{BidConvId: id, Bidder: bidder.Addr, Amount: core.OLT(lower)}, "BID_CREATE/rebid", bidder)}
	case r < 88:
		b.close(id)
		return []Tx{b.btx(&bid_action.CancelBid{BidConvId: id, Bidder: bidder.Addr}, "BID_CANCEL/on-counter", bidder)}
	}
	return nil
}

func bidFakeID(c *Ctx) bid_data.BidConvId {
	h := sha256.Sum256([]byte(memo(c)))
	return bid_data.BidConvId(hex.EncodeToString(h[:]))
}

func (b *bidView) opHostile() []Tx {
	c := b.c
	live := func(cv bidConvView) bool {
		return b.acct(cv.conv.AssetOwner) != nil && b.acct(cv.conv.Bidder) != nil && b.assetOK(cv)
	}
	switch c.Rng.Intn(24) {
	case 0: // a stranger decides as "owner"
		cv := b.pickConv(func(cv bidConvView) bool { return live(cv) && cv.offer.OfferType == bid_data.TypeBidOffer })
		if cv == nil {
			return nil
		}
		s := b.other(cv.conv.AssetOwner)
		if s == nil {
			return nil
		}
		dec := bid_data.AcceptBid
		if c.Rng.Intn(3) == 0 {
			dec = bid_data.RejectBid
		}
		return []Tx{b.btx(&bid_action.OwnerDecision{BidConvId: cv.conv.BidConvId, Owner: s.Addr, Decision: dec}, "BID_OWNER_DECISION/stranger", s)}
	case 1: // a stranger decides as "bidder"
		cv := b.pickConv(func(cv bidConvView) bool { return live(cv) && cv.offer.OfferType == bid_data.TypeCounterOffer })
		if cv == nil {
			return nil
		}
		s := b.other(cv.conv.Bidder)
		if s == nil {
			return nil
		}
		dec := bid_data.AcceptBid
		if c.Rng.Intn(3) == 0 {
			dec = bid_data.RejectBid
		}
		return []Tx{b.btx(&bid_action.BidderDecision{BidConvId: cv.conv.BidConvId, Bidder: s.Addr, Decision: dec}, "BID_BIDDER_DECISION/stranger", s)}
	case 2: // cancellation by somebody who is not the bidder (a stranger or the owner)
		cv := b.pickConv(live)
		if cv == nil {
			return nil
		}
		s := b.other(cv.conv.Bidder)
		if s == nil {
			return nil
		}
		kind := "BID_CANCEL/stranger"
		if c.Rng.Intn(2) == 0 {
			s, kind = b.acct(cv.conv.AssetOwner), "BID_CANCEL/by-owner"
			if s.Addr.Equal(cv.conv.Bidder) {
				return nil
			}
		}
		return []Tx{b.btx(&bid_action.CancelBid{BidConvId: cv.conv.BidConvId, Bidder: s.Addr}, kind, s)}
	case 3: // counter offers: by a stranger, not higher than the bid, while a counter offer is already active
		cv := b.pickConv(live)
		if cv == nil {
			return nil
		}
		owner := b.acct(cv.conv.AssetOwner)
		amt := cv.offer.Amount.Value.BigInt()
		more := new(big.Int).Add(amt, nueOf(int64(1+c.Rng.Intn(50))))
		if cv.offer.OfferType == bid_data.TypeCounterOffer {
			return []Tx{b.btx(&bid_action.CounterOffer{BidConvId: cv.conv.BidConvId, AssetOwner: owner.Addr, Amount: core.OLT(more)}, "BID_CONTER_OFFER/on-counter", owner)}
		}
		switch c.Rng.Intn(3) {
		case 0:
			s := b.other(cv.conv.AssetOwner)
			if s == nil {
				return nil
			}
			return []Tx{b.btx(&bid_action.CounterOffer{BidConvId: cv.conv.BidConvId, AssetOwner: s.Addr, Amount: core.OLT(more)}, "BID_CONTER_OFFER/stranger", s)}
		case 1:
			less := new(big.Int).Set(amt)
			if c.Rng.Intn(2) == 0 {
				less = bigRand(c.Rng, new(big.Int).Add(new(big.Int).Abs(amt), big.NewInt(1)))
			}
			return []Tx{b.btx(&bid_action.CounterOffer{BidConvId: cv.conv.BidConvId, AssetOwner: owner.Addr, Amount: core.OLT(less)}, "BID_CONTER_OFFER/not-higher", owner)}
		}
		a, l := core.OLT(new(big.Int).Neg(nueOf(int64(1+c.Rng.Intn(100))))), "negative"
		if c.Rng.Intn(2) == 0 {
			a, l = onsAmt("VT", more), "currency-VT"
		}
		return []Tx{b.btx(&bid_action.CounterOffer{BidConvId: cv.conv.BidConvId, AssetOwner: owner.Addr, Amount: a}, "BID_CONTER_OFFER/"+l, owner)}
	case 4, 5: // bids with amounts that must not work
		n, d := b.pick(b.s.Names, b.biddable)
		if d == nil {
			return nil
		}
		bidder := b.other(d.Owner)
		if bidder == nil || b.hasConv(d.Owner, bidder.Addr, n) || b.busy[n+bidder.Addr.String()] {
			return nil
		}
		b.busy[n+bidder.Addr.String()] = true
		var a action.Amount
		var l string
		switch c.Rng.Intn(5) {
		case 0:
			a, l = core.OLT(new(big.Int).Add(c.Ref.BalanceOf(bidder.Addr, "OLT"), big.NewInt(1))), "overdraw"
		case 1:
			a, l = core.OLT(new(big.Int).Neg(new(big.Int).Add(big.NewInt(1), bigRand(c.Rng, nueOf(500))))), "negative"
		case 2:
			a, l = core.OLTi(0), "zero"
		case 3:
			a, l = core.OLT(onsHuge), "huge"
		default:
			a, l = onsAmt("VT", b.bidAmount()), "currency-VT"
			if (onsBidCrashy || Lethal(c)) && c.Rng.Intn(2) == 0 {
				a, l = onsAmt("XYZ", b.bidAmount()), "currency-unknown"
			}
		}
		msg := &bid_action.CreateBid{AssetOwner: d.Owner, AssetName: n, AssetType: bid_data.BidAssetOns, Bidder: bidder.Addr, Amount: a, Deadline: b.deadline(c.Rng.Intn(3) == 0)}
		return []Tx{b.btx(msg, "BID_CREATE/"+l, bidder)}
	case 6: // bid on one's own name
		n, d := b.pick(b.s.Names, b.biddable)
		if d == nil {
			return nil
		}
		o := b.acct(d.Owner)
		if b.hasConv(d.Owner, o.Addr, n) || b.busy[n+o.Addr.String()] {
			return nil
		}
		b.busy[n+o.Addr.String()] = true
		msg := &bid_action.CreateBid{AssetOwner: o.Addr, AssetName: n, AssetType: bid_data.BidAssetOns, Bidder: o.Addr, Amount: core.OLT(b.bidAmount()), Deadline: b.deadline(false)}
		return []Tx{b.btx(msg, "BID_CREATE/own-asset", o)}
	case 7: // the named owner does not own the name / the name does not exist / is on sale / is a sub-domain / has expired
		bidder := b.anyUser()
		msg := &bid_action.CreateBid{AssetType: bid_data.BidAssetOns, Bidder: bidder.Addr, Amount: core.OLT(b.bidAmount()), Deadline: b.deadline(false)}
		switch c.Rng.Intn(5) {
		case 0:
			n, d := b.pick(b.s.Names, b.biddable)
			if d == nil {
				return nil
			}
			w := b.other(d.Owner, bidder.Addr)
			if w == nil {
				return nil
			}
			msg.AssetName, msg.AssetOwner = n, w.Addr
			return []Tx{b.btx(msg, "BID_CREATE/wrong-owner", bidder)}
		case 1:
			msg.AssetName, msg.AssetOwner = "nosuch"+onsLetters(c, 4, false)+".ol", b.other(bidder.Addr).Addr
			return []Tx{b.btx(msg, "BID_CREATE/no-such-name", bidder)}
		case 2:
			n, d := b.pick(b.s.Names, func(n string, d *ons.Domain) bool { return d.OnSaleFlag && b.alive(d) })
			if d == nil {
				return nil
			}
			msg.AssetName, msg.AssetOwner = n, d.Owner
			return []Tx{b.btx(msg, "BID_CREATE/on-sale", bidder)}
		case 3:
			n, d := b.pick(b.s.Subs, nil)
			if d == nil {
				return nil
			}
			msg.AssetName, msg.AssetOwner = n, d.Owner
			return []Tx{b.btx(msg, "BID_CREATE/sub-domain", bidder)}
		}
		n, d := b.pick(b.s.Names, func(n string, d *ons.Domain) bool { return d.ExpireHeight < c.H-1 })
		if d == nil {
			return nil
		}
		msg.AssetName, msg.AssetOwner = n, d.Owner
		return []Tx{b.btx(msg, "BID_CREATE/expired-name", bidder)}
	case 8: // deadline already in the past
		n, d := b.pick(b.s.Names, b.biddable)
		if d == nil {
			return nil
		}
		bidder := b.other(d.Owner)
		if bidder == nil || b.hasConv(d.Owner, bidder.Addr, n) || b.busy[n+bidder.Addr.String()] {
			return nil
		}
		dl := b.now - 1 - c.Rng.Int63n(5000)
		if c.Rng.Intn(4) == 0 {
			dl = 0
		}
		msg := &bid_action.CreateBid{AssetOwner: d.Owner, AssetName: n, AssetType: bid_data.BidAssetOns, Bidder: bidder.Addr, Amount: core.OLT(b.bidAmount()), Deadline: dl}
		return []Tx{b.btx(msg, "BID_CREATE/past-deadline", bidder)}
	case 9: // a second conversation for the same (owner, name, bidder) while one is active
		cv := b.pickConv(func(cv bidConvView) bool { return live(cv) && cv.conv.AssetType == bid_data.BidAssetOns })
		if cv == nil {
			return nil
		}
		bidder := b.acct(cv.conv.Bidder)
		msg := &bid_action.CreateBid{AssetOwner: cv.conv.AssetOwner, AssetName: cv.conv.AssetName, AssetType: bid_data.BidAssetOns, Bidder: bidder.Addr, Amount: core.OLT(b.bidAmount()), Deadline: b.deadline(false)}
		return []Tx{b.btx(msg, "BID_CREATE/duplicate", bidder)}
	case 10: // the same new conversation twice in ONE block (the duplicate check only sees committed conversations)
		n, d := b.pick(b.s.Names, b.biddable)
		if d == nil {
			return nil
		}
		bidder := b.other(d.Owner)
		if bidder == nil || b.hasConv(d.Owner, bidder.Addr, n) || b.busy[n+bidder.Addr.String()] {
			return nil
		}
		b.busy[n+bidder.Addr.String()] = true
		m1 := &bid_action.CreateBid{AssetOwner: d.Owner, AssetName: n, AssetType: bid_data.BidAssetOns, Bidder: bidder.Addr, Amount: core.OLT(b.bidAmount()), Deadline: b.deadline(false)}
		m2 := &bid_action.CreateBid{AssetOwner: d.Owner, AssetName: n, AssetType: bid_data.BidAssetOns, Bidder: bidder.Addr, Amount: core.OLT(b.bidAmount()), Deadline: b.deadline(false)}
		return []Tx{b.btx(m1, "BID_CREATE/duplicate-same-block", bidder), b.btx(m2, "BID_CREATE/duplicate-same-block", bidder)}
	case 11: // re-bids that must not work
		switch c.Rng.Intn(4) {
		case 0: // not lower than the counter offer
			cv := b.pickConv(func(cv bidConvView) bool { return live(cv) && cv.offer.OfferType == bid_data.TypeCounterOffer })
			if cv == nil {
				return nil
			}
			bidder := b.acct(cv.conv.Bidder)
			amt := new(big.Int).Add(cv.offer.Amount.Value.BigInt(), big.NewInt(c.Rng.Int63n(1000)))
			return []Tx{b.btx(&bid_action.CreateBid{BidConvId: cv.conv.BidConvId, Bidder: bidder.Addr, Amount: core.OLT(amt)}, "BID_CREATE/rebid-not-lower", bidder)}
		case 1: // no counter offer is active
			cv := b.pickConv(func(cv bidConvView) bool { return live(cv) && cv.offer.OfferType == bid_data.TypeBidOffer })
			if cv == nil {
				return nil
			}
			bidder := b.acct(cv.conv.Bidder)
			return []Tx{b.btx(&bid_action.CreateBid{BidConvId: cv.conv.BidConvId, Bidder: bidder.Addr, Amount: core.OLT(b.bidAmount())}, "BID_CREATE/rebid-no-counter", bidder)}
		case 2: // by a stranger
			cv := b.pickConv(func(cv bidConvView) bool { return live(cv) && cv.offer.OfferType == bid_data.TypeCounterOffer })
			if cv == nil {
				return nil
			}
			s := b.other(cv.conv.Bidder)
			if s == nil {
				return nil
			}
			return []Tx{b.btx(&bid_action.CreateBid{BidConvId: cv.conv.BidConvId, Bidder: s.Addr, Amount: core.OLT(big.NewInt(1 + c.Rng.Int63n(1000)))}, "BID_CREATE/rebid-stranger", s)}
		}
		u := b.anyUser()
		return []Tx{b.btx(&bid_action.CreateBid{BidConvId: bidFakeID(c), Bidder: u.Addr, Amount: core.OLT(b.bidAmount())}, "BID_CREATE/unknown-conv", u)}
	case 12: // the same decision twice in one block
		cv := b.pickConv(live)
		if cv == nil {
			return nil
		}
		id := cv.conv.BidConvId
		b.busy[string(id)] = true
		b.close(id)
		if cv.offer.OfferType == bid_data.TypeBidOffer {
			o := b.acct(cv.conv.AssetOwner)
			m := &bid_action.OwnerDecision{BidConvId: id, Owner: o.Addr, Decision: bid_data.AcceptBid}
			return []Tx{b.btx(m, "BID_OWNER_DECISION/double", o), b.btx(m, "BID_OWNER_DECISION/double", o)}
		}
		bd := b.acct(cv.conv.Bidder)
		m := &bid_action.BidderDecision{BidConvId: id, Bidder: bd.Addr, Decision: bid_data.AcceptBid}
		return []Tx{b.btx(m, "BID_BIDDER_DECISION/double", bd), b.btx(m, "BID_BIDDER_DECISION/double", bd)}
	case 13: // acceptance racing with the bidder's cancellation in the same block
		cv := b.pickConv(func(cv bidConvView) bool { return live(cv) && cv.offer.OfferType == bid_data.TypeBidOffer })
		if cv == nil {
			return nil
		}
		id := cv.conv.BidConvId
		b.busy[string(id)] = true
		b.close(id)
		o, bd := b.acct(cv.conv.AssetOwner), b.acct(cv.conv.Bidder)
		return []Tx{
			b.btx(&bid_action.OwnerDecision{BidConvId: id, Owner: o.Addr, Decision: bid_data.AcceptBid}, "BID_OWNER_DECISION/race-cancel", o),
			b.btx(&bid_action.CancelBid{BidConvId: id, Bidder: bd.Addr}, "BID_CANCEL/race-accept", bd),
		}
	case 14: // decision code that is neither accept nor reject
		cv := b.pickConv(live)
		if cv == nil {
			return nil
		}
		dec := bid_data.BidDecision([]int{0, 3, 255, -1}[c.Rng.Intn(4)])
		if cv.offer.OfferType == bid_data.TypeBidOffer {
			o := b.acct(cv.conv.AssetOwner)
			return []Tx{b.btx(&bid_action.OwnerDecision{BidConvId: cv.conv.BidConvId, Owner: o.Addr, Decision: dec}, "BID_OWNER_DECISION/invalid-code", o)}
		}
		bd := b.acct(cv.conv.Bidder)
		return []Tx{b.btx(&bid_action.BidderDecision{BidConvId: cv.conv.BidConvId, Bidder: bd.Addr, Decision: dec}, "BID_BIDDER_DECISION/invalid-code", bd)}
	case 15: // the right person decides at the wrong moment (it is the other side's turn)
		cv := b.pickConv(live)
		if cv == nil {
			return nil
		}
		if cv.offer.OfferType == bid_data.TypeBidOffer {
			bd := b.acct(cv.conv.Bidder)
			return []Tx{b.btx(&bid_action.BidderDecision{BidConvId: cv.conv.BidConvId, Bidder: bd.Addr, Decision: bid_data.AcceptBid}, "BID_BIDDER_DECISION/no-counter", bd)}
		}
		o := b.acct(cv.conv.AssetOwner)
		return []Tx{b.btx(&bid_action.OwnerDecision{BidConvId: cv.conv.BidConvId, Owner: o.Addr, Decision: bid_data.AcceptBid}, "BID_OWNER_DECISION/on-counter", o)}
	case 16: // anything on a conversation that was closed earlier (or never existed)
		id := bidFakeID(c)
		l := "unknown-conv"
		if len(b.bs.Closed) > 0 && c.Rng.Intn(4) != 0 {
			id, l = bid_data.BidConvId(b.bs.Closed[c.Rng.Intn(len(b.bs.Closed))]), "closed-conv"
		}
		u := b.anyUser()
		switch c.Rng.Intn(4) {
		case 0:
			return []Tx{b.btx(&bid_action.OwnerDecision{BidConvId: id, Owner: u.Addr, Decision: bid_data.AcceptBid}, "BID_OWNER_DECISION/"+l, u)}
		case 1:
			return []Tx{b.btx(&bid_action.BidderDecision{BidConvId: id, Bidder: u.Addr, Decision: bid_data.AcceptBid}, "BID_BIDDER_DECISION/"+l, u)}
		case 2:
			return []Tx{b.btx(&bid_action.CancelBid{BidConvId: id, Bidder: u.Addr}, "BID_CANCEL/"+l, u)}
		}
		return []Tx{b.btx(&bid_action.CounterOffer{BidConvId: id, AssetOwner: u.Addr, Amount: core.OLT(b.bidAmount())}, "BID_CONTER_OFFER/"+l, u)}
	case 17, 18: // BID_EXPIRE is meant to be internal; here anybody sends it
		u := b.anyUser()
		var sel *bidConvView
		for i := range b.convs {
			if b.convs[i].conv.DeadlineUTC < b.now+12 && !b.busy[string(b.convs[i].conv.BidConvId)] {
				sel = &b.convs[i]
				break
			}
		}
		if sel != nil && c.Rng.Intn(2) == 0 {
			return []Tx{b.btx(&bid_action.ExpireBid{BidConvId: sel.conv.BidConvId, ValidatorAddress: u.Addr}, "BID_EXPIRE/external-late", u)}
		}
		cv := b.pickConv(func(cv bidConvView) bool { return cv.conv.DeadlineUTC > b.now+100 })
		if cv == nil {
			if c.Rng.Intn(3) != 0 {
				return nil
			}
			return []Tx{b.btx(&bid_action.ExpireBid{BidConvId: bidFakeID(c), ValidatorAddress: u.Addr}, "BID_EXPIRE/external-unknown", u)}
		}
		b.busy[string(cv.conv.BidConvId)] = true
		b.close(cv.conv.BidConvId)
		kind := "BID_EXPIRE/external-early"
		if len(c.W.Validators) > 0 && c.Rng.Intn(3) == 0 {
			// signed by a real validator's stake key: still nothing makes it legitimate before the deadline
			u, kind = c.W.Validators[c.Rng.Intn(len(c.W.Validators))].NodeKey, "BID_EXPIRE/external-early-validator"
		}
		return []Tx{b.btx(&bid_action.ExpireBid{BidConvId: cv.conv.BidConvId, ValidatorAddress: u.Addr}, kind, u)}
	case 19: // the message names the real owner but a stranger signed (only Validate checks signatures)
		cv := b.pickConv(func(cv bidConvView) bool { return live(cv) && cv.offer.OfferType == bid_data.TypeBidOffer })
		if cv == nil {
			return nil
		}
		s := b.other(cv.conv.AssetOwner)
		if s == nil {
			return nil
		}
		b.busy[string(cv.conv.BidConvId)] = true
		return []Tx{b.btx(&bid_action.OwnerDecision{BidConvId: cv.conv.BidConvId, Owner: cv.conv.AssetOwner, Decision: bid_data.AcceptBid}, "BID_OWNER_DECISION/forged-sig", s)}
	case 20, 21: // the "example" asset type accepts any name and any owner
		bidder := b.anyUser()
		owner := b.other(bidder.Addr)
		if owner == nil {
			return nil
		}
		name := "example-" + onsLetters(c, 4, false)
		msg := &bid_action.CreateBid{AssetOwner: owner.Addr, AssetName: name, AssetType: bid_data.BidAssetExample, Bidder: bidder.Addr, Amount: core.OLT(b.bidAmount()), Deadline: b.deadline(c.Rng.Intn(2) == 0)}
		return []Tx{b.btx(msg, "BID_CREATE/example-asset", bidder)}
	case 22: // accepted bid racing with the owner's own DOMAIN_UPDATE of the name in the same block
		cv := b.pickConv(func(cv bidConvView) bool {
			return live(cv) && cv.offer.OfferType == bid_data.TypeBidOffer && cv.conv.AssetType == bid_data.BidAssetOns && !b.used[cv.conv.AssetName]
		})
		if cv == nil {
			return nil
		}
		id := cv.conv.BidConvId
		b.busy[string(id)] = true
		b.used[cv.conv.AssetName] = true
		o := b.acct(cv.conv.AssetOwner)
		upd := &aons.DomainUpdate{Owner: o.Addr, Name: ons.Name(cv.conv.AssetName), Active: true, Beneficiary: o.Addr, Uri: b.uri()}
		return []Tx{
			b.btx(&bid_action.OwnerDecision{BidConvId: id, Owner: o.Addr, Decision: bid_data.AcceptBid}, "BID_OWNER_DECISION/race-update", o),
			b.btx(upd, "DOMAIN_UPDATE/race-bid", o),
		}
	default: // unregistered asset type: BidAssetMap lookup yields a nil interface -> panic -> app.Close (only with onsBidCrashy)
		if !onsBidCrashy && !Lethal(b.c) {
			return nil
		}
		bidder := b.anyUser()
		owner := b.other(bidder.Addr)
		if owner == nil {
			return nil
		}
		msg := &bid_action.CreateBid{AssetOwner: owner.Addr, AssetName: "whatever.ol", AssetType: bid_data.BidAssetType(0x23), Bidder: bidder.Addr, Amount: core.OLT(b.bidAmount()), Deadline: b.deadline(false)}
		return []Tx{b.btx(msg, "BID_CREATE/unknown-asset-type", bidder)}
	}
}

func init() {
	Register(Bid{})
}

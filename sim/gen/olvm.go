package gen

// OLVM (EVM) workload generator: contract creation with hand-assembled bytecode, calls into the
// created contracts (storage, reverts, out-of-gas, logs, environment opcodes, nested calls,
// CREATE/CREATE2, SELFDESTRUCT and resurrection, precompiles) plus hostile transaction-level
// variants. No compiler exists in the sandbox, so all contracts are assembled by olvmAsm below.

import (
	"bytes"
	"math"
	"math/big"
	"strconv"

	ethcmn "github.com/ethereum/go-ethereum/common"
	ethcrypto "github.com/ethereum/go-ethereum/crypto"

	"github.com/Oneledger/protocol/action"
	"github.com/Oneledger/protocol/action/olvm"
	"github.com/Oneledger/protocol/action/transfer"
	"github.com/Oneledger/protocol/data/balance"
	"github.com/Oneledger/protocol/data/evm"
	"github.com/Oneledger/protocol/data/keys"
	"github.com/Oneledger/protocol/serialize"
	"github.com/Oneledger/protocol/utils"
	ethtypes "github.com/ethereum/go-ethereum/core/types"

	"olsim/core"
)

// Switches for opcodes that are off by default. BLOCKHASH depends on the block store of the node
// (emitted only under the label "OLVM/blockhash"); BASEFEE is enabled by the London rules of the
// repository's chain config while BlockContext.BaseFee is nil (label "OLVM/basefee").
var (
	OlvmBlockhash = false
	OlvmBasefee   = false
)

// olvmFlag: a switch is on when the package variable is set or the session says so
// (c.S.M["olvm-blockhash"] = true / c.S.M["olvm-basefee"] = true).
func olvmFlag(c *Ctx, name string, global bool) bool {
	if global {
		return true
	}
	b, _ := c.S.M[name].(bool)
	return b
}

// ---------------------------------------------------------------------------------------------
// tiny EVM assembler
// ---------------------------------------------------------------------------------------------

const (
	ovSTOP           = 0x00
	ovADD            = 0x01
	ovSUB            = 0x03
	ovLT             = 0x10
	ovGT             = 0x11
	ovEQ             = 0x14
	ovISZERO         = 0x15
	ovSHR            = 0x1c
	ovADDRESS        = 0x30
	ovBALANCE        = 0x31
	ovORIGIN         = 0x32
	ovCALLER         = 0x33
	ovCALLVALUE      = 0x34
	ovCALLDATALOAD   = 0x35
	ovCALLDATASIZE   = 0x36
	ovCALLDATACOPY   = 0x37
	ovCODESIZE       = 0x38
	ovCODECOPY       = 0x39
	ovGASPRICE       = 0x3a
	ovEXTCODESIZE    = 0x3b
	ovEXTCODECOPY    = 0x3c
	ovRETURNDATASIZE = 0x3d
	ovRETURNDATACOPY = 0x3e
	ovEXTCODEHASH    = 0x3f
	ovBLOCKHASH      = 0x40
	ovCOINBASE       = 0x41
	ovTIMESTAMP      = 0x42
	ovNUMBER         = 0x43
	ovDIFFICULTY     = 0x44
	ovGASLIMIT       = 0x45
	ovCHAINID        = 0x46
	ovSELFBALANCE    = 0x47
	ovBASEFEE        = 0x48
	ovPOP            = 0x50
	ovMLOAD          = 0x51
	ovMSTORE         = 0x52
	ovMSTORE8        = 0x53
	ovSLOAD          = 0x54
	ovSSTORE         = 0x55
	ovJUMP           = 0x56
	ovJUMPI          = 0x57
	ovGAS            = 0x5a
	ovJUMPDEST       = 0x5b
	ovPUSH1          = 0x60
	ovPUSH2          = 0x61
	ovDUP1           = 0x80
	ovDUP2           = 0x81
	ovDUP3           = 0x82
	ovAND = 0x16
	ovSHA3           = 0x20
	ovSHL            = 0x1b
	ovDUP6           = 0x85
	ovLOG0           = 0xa0
	ovLOG1           = 0xa1
	ovLOG2           = 0xa2
	ovLOG3           = 0xa3
	ovLOG4           = 0xa4
	ovCREATE         = 0xf0
	ovCALL           = 0xf1
	ovCALLCODE       = 0xf2
	ovRETURN         = 0xf3
	ovDELEGATECALL   = 0xf4
	ovCREATE2        = 0xf5
	ovSTATICCALL     = 0xfa
	ovREVERT         = 0xfd
	ovINVALID        = 0xfe
	ovSELFDESTRUCT   = 0xff
)

type olvmFix struct {
	pos  int
	name string
}

// olvmAsm assembles EVM bytecode with symbolic jump labels (resolved as PUSH2 <pc>).
type olvmAsm struct {
	b      []byte
	labels map[string]int
	fixups []olvmFix
}

func newOlvmAsm() *olvmAsm { return &olvmAsm{labels: map[string]int{}} }

func (a *olvmAsm) op(ops ...byte) *olvmAsm { a.b = append(a.b, ops...); return a }

// push emits the shortest PUSHn for v.
func (a *olvmAsm) push(v uint64) *olvmAsm {
	if v == 0 {
		return a.op(ovPUSH1, 0)
	}
	var buf []byte
	for x := v; x > 0; x >>= 8 {
		buf = append([]byte{byte(x)}, buf...)
	}
	return a.pushB(buf)
}

// pushB emits PUSHn with the given 1..32 bytes.
func (a *olvmAsm) pushB(data []byte) *olvmAsm {
	if len(data) == 0 {
		return a.op(ovPUSH1, 0)
	}
	if len(data) > 32 {
		data = data[:32]
	}
	a.b = append(a.b, ovPUSH1+byte(len(data)-1))
	a.b = append(a.b, data...)
	return a
}

func (a *olvmAsm) label(n string) *olvmAsm { a.labels[n] = len(a.b); return a.op(ovJUMPDEST) }

func (a *olvmAsm) ref(n string) *olvmAsm {
	a.op(ovPUSH2)
	a.fixups = append(a.fixups, olvmFix{pos: len(a.b), name: n})
	return a.op(0, 0)
}
func (a *olvmAsm) jump(n string) *olvmAsm  { return a.ref(n).op(ovJUMP) }
func (a *olvmAsm) jumpi(n string) *olvmAsm { return a.ref(n).op(ovJUMPI) }

// sel leaves the first calldata byte on the stack.
func (a *olvmAsm) sel() *olvmAsm {
	return a.push(0).op(ovCALLDATALOAD).push(0xf8).op(ovSHR)
}

// caseOf jumps to label when the selector on top of the stack equals k (selector stays on the stack).
func (a *olvmAsm) caseOf(k byte, label string) *olvmAsm {
	return a.op(ovDUP1).push(uint64(k)).op(ovEQ).jumpi(label)
}

// arg pushes the i-th 32-byte argument word (calldata layout: selector byte, then words).
func (a *olvmAsm) arg(i int) *olvmAsm { return a.push(uint64(1 + 32*i)).op(ovCALLDATALOAD) }

// sstoreTo stores the top of the stack into a fixed slot.
func (a *olvmAsm) sstoreTo(slot uint64) *olvmAsm { return a.push(slot).op(ovSSTORE) }

func (a *olvmAsm) bytes() []byte {
	out := append([]byte{}, a.b...)
	for _, f := range a.fixups {
		pc, ok := a.labels[f.name]
		if !ok {
			continue // unresolved label: jumps to 0 (invalid destination)
		}
		out[f.pos] = byte(pc >> 8)
		out[f.pos+1] = byte(pc)
	}
	return out
}

// olvmDeploy wraps runtime code into init code: <ctor> ; CODECOPY(0, off, len) ; RETURN(0, len).
func olvmDeploy(ctor, runtime []byte) []byte {
	a := newOlvmAsm()
	a.op(ctor...)
	off := len(ctor) + 13
	a.op(ovPUSH2, byte(len(runtime)>>8), byte(len(runtime))) // size
	a.op(ovDUP1)                                             // size size
	a.op(ovPUSH2, byte(off>>8), byte(off))                   // size size off
	a.op(ovPUSH1, 0, ovCODECOPY)                             // size
	a.op(ovPUSH1, 0, ovRETURN)
	a.op(runtime...)
	return a.bytes()
}

// ---------------------------------------------------------------------------------------------
// the contracts (runtime code); every contract dispatches on the first calldata byte and
// accepts plain value transfers (unknown selector => STOP)
// ---------------------------------------------------------------------------------------------

// store: 1 set(slot,val) 2 twice(slot,v1,v2) 3 set+clear(slot,val) 4 load(slot) 5 set+revert 6 multi(slot,val,n)
// 7 copy(from,to): SSTORE(to, SLOAD(from)) makes what SLOAD returned visible in the state
func olvmStoreCode() []byte {
	a := newOlvmAsm()
	a.sel().caseOf(1, "set").caseOf(2, "twice").caseOf(3, "setclear").caseOf(4, "load").caseOf(5, "setrevert").caseOf(6, "multi").caseOf(7, "copy")
	a.op(ovSTOP)
	a.label("copy").arg(0).op(ovSLOAD).arg(1).op(ovSSTORE, ovSTOP)
	a.label("set").arg(1).arg(0).op(ovSSTORE, ovSTOP)
	a.label("twice").arg(1).arg(0).op(ovSSTORE).arg(2).arg(0).op(ovSSTORE, ovSTOP)
	a.label("setclear").arg(1).arg(0).op(ovSSTORE).push(0).arg(0).op(ovSSTORE, ovSTOP)
	a.label("load").arg(0).op(ovSLOAD).push(0).op(ovMSTORE).push(32).push(0).op(ovRETURN)
	a.label("setrevert").arg(1).arg(0).op(ovSSTORE).push(0).push(0).op(ovREVERT)
	a.label("multi").push(0) // [sel i]
	a.label("loop").op(ovDUP1).arg(2).op(ovGT, ovISZERO).jumpi("end")
	a.arg(1).op(ovDUP2).arg(0).op(ovADD, ovSSTORE).push(1).op(ovADD).jump("loop")
	a.label("end").op(ovSTOP)
	return a.bytes()
}

// reverter: 1 revert() 2 revert(calldata) 3 INVALID 4 loop 5 undefined opcode 6 stack underflow
// 7 bad jump 8 memory blow-up 9 SSTORE then loop
func olvmRevCode() []byte {
	a := newOlvmAsm()
	a.sel().caseOf(1, "rev0").caseOf(2, "revdata").caseOf(3, "inv").caseOf(4, "loop").caseOf(5, "undef").
		caseOf(6, "under").caseOf(7, "badjump").caseOf(8, "memoog").caseOf(9, "sstoreloop")
	a.op(ovSTOP)
	a.label("rev0").push(0).push(0).op(ovREVERT)
	a.label("revdata").op(ovCALLDATASIZE).push(0).push(0).op(ovCALLDATACOPY, ovCALLDATASIZE).push(0).op(ovREVERT)
	a.label("inv").op(ovINVALID)
	a.label("loop").jump("loop")
	a.label("undef").op(0x0c)
	a.label("under").op(ovPOP, ovPOP, ovPOP)
	a.label("badjump").push(1).op(ovJUMP)
	a.label("memoog").push(1).pushB([]byte{0xff, 0xff, 0xff, 0xff, 0xff}).op(ovMSTORE, ovSTOP)
	a.label("sstoreloop").push(7).push(0).op(ovSSTORE)
	a.label("l2").jump("l2")
	return a.bytes()
}

var olvmTopic1 = ethcrypto.Keccak256([]byte("olvm-generator-topic"))

// logger: selector n in 0..4 => LOGn(calldata); 5 LOG1 then revert; 6 LOG0+LOG2+LOG4
func olvmLogCode() []byte {
	a := newOlvmAsm()
	a.op(ovCALLDATASIZE).push(0).push(0).op(ovCALLDATACOPY)
	a.sel().caseOf(0, "log0").caseOf(1, "log1").caseOf(2, "log2").caseOf(3, "log3").caseOf(4, "log4").caseOf(5, "logrev").caseOf(6, "multi")
	a.op(ovSTOP)
	l0 := func() { a.op(ovCALLDATASIZE).push(0).op(ovLOG0) }
	l1 := func() { a.pushB(olvmTopic1).op(ovCALLDATASIZE).push(0).op(ovLOG1) }
	l2 := func() { a.op(ovCALLER).pushB(olvmTopic1).op(ovCALLDATASIZE).push(0).op(ovLOG2) }
	l3 := func() { a.arg(0).op(ovCALLER).pushB(olvmTopic1).op(ovCALLDATASIZE).push(0).op(ovLOG3) }
	l4 := func() { a.op(ovNUMBER).arg(0).op(ovCALLER).pushB(olvmTopic1).op(ovCALLDATASIZE).push(0).op(ovLOG4) }
	a.label("log0")
	l0()
	a.op(ovSTOP)
	a.label("log1")
	l1()
	a.op(ovSTOP)
	a.label("log2")
	l2()
	a.op(ovSTOP)
	a.label("log3")
	l3()
	a.op(ovSTOP)
	a.label("log4")
	l4()
	a.op(ovSTOP)
	a.label("logrev")
	l1()
	a.push(0).push(0).op(ovREVERT)
	a.label("multi")
	l0()
	l2()
	l4()
	a.op(ovSTOP)
	return a.bytes()
}

// env: 1 store env values into slots 0..9; 2 LOG0 the same values; 3 BLOCKHASH(NUMBER-arg0) -> slot 0x20;
// 4 BASEFEE -> slot 0x22; 5 COINBASE/DIFFICULTY/GASLIMIT/CODESIZE -> slots 0x30..; 6 probe(addr) -> slots 0x40..;
// 7 BLOCKHASH(NUMBER-arg0) twice and BLOCKHASH(NUMBER-arg0-1) -> slots 0x23..0x25
// OlvmNoGaslimit (set by profiles whose oracle exempts the block's running gas total, C06) replaces
// GASLIMIT in generated contracts: the opcode returns the remaining block gas pool.
var OlvmNoGaslimit = false

func olvmEnvCode() []byte {
	vals := []byte{ovCALLER, ovORIGIN, ovTIMESTAMP, ovNUMBER, ovCHAINID, ovGASPRICE, ovSELFBALANCE, ovADDRESS, ovCALLVALUE}
	a := newOlvmAsm()
	a.sel().caseOf(1, "store").caseOf(2, "log").caseOf(3, "bhash").caseOf(4, "basefee").caseOf(5, "ext").caseOf(6, "probe").caseOf(7, "bhash3").caseOf(8, "logpanic").caseOf(9, "probepanic")
	a.op(ovSTOP)
	a.label("store")
	for i, v := range vals {
		a.op(v).sstoreTo(uint64(i))
	}
	a.op(ovCALLER, ovBALANCE).sstoreTo(9)
	a.op(ovSTOP)
	a.label("log")
	for i, v := range vals {
		a.op(v).push(uint64(32 * i)).op(ovMSTORE)
	}
	a.op(ovCALLER, ovBALANCE).push(32 * 9).op(ovMSTORE)
	a.push(320).push(0).op(ovLOG0, ovSTOP)
	a.label("bhash").arg(0).op(ovNUMBER, ovSUB, ovBLOCKHASH).sstoreTo(0x20).op(ovSTOP)
	a.label("basefee").op(ovBASEFEE).sstoreTo(0x22).op(ovSTOP)
	// the same earlier block's hash twice, then its predecessor's (the hash provider caches per transaction)
	a.label("bhash3").arg(0).op(ovNUMBER, ovSUB, ovBLOCKHASH).sstoreTo(0x23).arg(0).op(ovNUMBER, ovSUB, ovBLOCKHASH).sstoreTo(0x24)
	a.push(1).arg(0).op(ovADD, ovNUMBER, ovSUB, ovBLOCKHASH).sstoreTo(0x25).op(ovSTOP)
	// a log, then a panic inside the EVM (BASEFEE with a nil base fee)
	a.label("logpanic").push(32).push(0).op(ovLOG0, ovBASEFEE).sstoreTo(0x26).op(ovSTOP)
	// a third address read (it is warm from here on in this transaction), then the same panic
	a.label("probepanic").arg(0).op(ovBALANCE).sstoreTo(0x27).op(ovBASEFEE).sstoreTo(0x26).op(ovSTOP)
	gl := byte(ovGASLIMIT)
	if OlvmNoGaslimit {
		gl = ovCODESIZE
	}
	a.label("ext").op(ovCOINBASE).sstoreTo(0x30).op(ovDIFFICULTY).sstoreTo(0x31).op(gl).sstoreTo(0x32).op(ovCODESIZE).sstoreTo(0x33).op(ovSTOP)
	a.label("probe").arg(0).op(ovBALANCE).sstoreTo(0x40).arg(0).op(ovEXTCODESIZE).sstoreTo(0x41).arg(0).op(ovEXTCODEHASH).sstoreTo(0x42)
	a.push(32).push(0).push(0).arg(0).op(ovEXTCODECOPY).push(0).op(ovMLOAD).sstoreTo(0x43).op(ovSTOP)
	return a.bytes()
}

const olvmFwdGas = 200000  // gas forwarded by the proxy to its callee
const olvmRetBase = 0x4000 // where the proxy keeps return data (the inner calldata sits at memory 0)

// proxy: calldata = mode(1) target(32) value(32) inner...; forwards inner to target.
// 1 CALL 2 DELEGATECALL 3 STATICCALL 4 CALLCODE 5 CALL with gas=value-word, no value 6 CALL then REVERT 7 CALL twice.
// After each call: LOG1(returndata, topic=success) and slot 0xff = success+1; returns the return data.
func olvmProxyCode() []byte {
	a := newOlvmAsm()
	a.push(65).op(ovCALLDATASIZE, ovLT).jumpi("stop")
	a.push(65).op(ovCALLDATASIZE, ovSUB)             // [isz]
	a.op(ovDUP1).push(65).push(0).op(ovCALLDATACOPY) // mem[0..isz] = inner
	a.sel().caseOf(1, "call").caseOf(2, "dcall").caseOf(3, "scall").caseOf(4, "ccode").caseOf(5, "lowgas").caseOf(6, "callrev").caseOf(7, "twice")
	a.label("stop").op(ovSTOP)
	// stack on entry of the macros: [isz]
	call := func(opc byte, value bool, gasArg bool) {
		a.push(0).push(0).op(ovDUP3).push(0) // retSize retOff argsSize argsOff
		if value {
			if gasArg {
				a.push(0)
			} else {
				a.arg(1)
			}
		}
		a.arg(0)
		if gasArg {
			a.arg(1)
		} else {
			a.push(olvmFwdGas) // a bounded stipend, so that a sub-call that burns all its gas leaves enough for the epilogue
		}
		a.op(opc) // [isz ok]
	}
	post := func() {
		a.op(ovRETURNDATASIZE).push(0).push(olvmRetBase).op(ovRETURNDATACOPY)
		a.op(ovDUP1, ovRETURNDATASIZE).push(olvmRetBase).op(ovLOG1)
		a.push(1).op(ovADD).sstoreTo(0xff) // [isz]
	}
	ret := func() { a.op(ovRETURNDATASIZE).push(olvmRetBase).op(ovRETURN) }
	a.label("call").op(ovPOP)
	call(ovCALL, true, false)
	post()
	ret()
	a.label("dcall").op(ovPOP)
	call(ovDELEGATECALL, false, false)
	post()
	ret()
	a.label("scall").op(ovPOP)
	call(ovSTATICCALL, false, false)
	post()
	ret()
	a.label("ccode").op(ovPOP)
	call(ovCALLCODE, true, false)
	post()
	ret()
	a.label("lowgas").op(ovPOP)
	call(ovCALL, true, true)
	post()
	ret()
	a.label("callrev").op(ovPOP)
	call(ovCALL, true, false)
	post()
	a.push(0).push(0).op(ovREVERT)
	a.label("twice").op(ovPOP)
	call(ovCALL, true, false)
	post()
	call(ovCALL, true, false)
	post()
	ret()
	return a.bytes()
}

// factory: calldata = mode(1) salt(32) value(32) initcode...
// 1 CREATE 2 CREATE2 3 CREATE2 + call child 4 CREATE then REVERT 5 CREATE2, child.kill(caller), CREATE2 again
// 6 CREATE2 twice 7 pay `value` to the address the CREATE2 child will get, then CREATE2 it there (without endowment).
// Slot 0 = (last) created address, slot 3 = second address, slot 2 = call result + 1, slot 9 = counter.
func olvmFactoryCode() []byte {
	a := newOlvmAsm()
	a.push(65).op(ovCALLDATASIZE, ovLT).jumpi("stop")
	a.push(65).op(ovCALLDATASIZE, ovSUB)             // [isz]
	a.op(ovDUP1).push(65).push(0).op(ovCALLDATACOPY) // mem[0..isz] = init code
	a.sel().caseOf(1, "create").caseOf(2, "create2").caseOf(3, "c2call").caseOf(4, "crev").caseOf(5, "c2kill").caseOf(6, "c2twice").caseOf(7, "payc2")
	a.label("stop").op(ovSTOP)
	create := func() { a.op(ovDUP1).push(0).arg(1).op(ovCREATE) }          // [isz addr]
	create2 := func() { a.arg(0).op(ovDUP2).push(0).arg(1).op(ovCREATE2) } // [isz addr]
	rec := func(slot uint64) {
		a.op(ovDUP1).sstoreTo(slot)
		a.op(ovDUP1).push(0).push(0).op(ovLOG1)
		a.push(9).op(ovSLOAD).push(1).op(ovADD).sstoreTo(9)
	}
	a.label("create").op(ovPOP)
	create()
	rec(0)
	a.op(ovSTOP)
	a.label("create2").op(ovPOP)
	create2()
	rec(0)
	a.op(ovSTOP)
	a.label("c2call").op(ovPOP)
	create2()
	rec(0)
	a.push(0).push(0).push(0).push(0).push(0).op(ovDUP6, ovGAS, ovCALL) // [isz addr ok]
	a.push(1).op(ovADD).sstoreTo(2)
	a.op(ovSTOP)
	a.label("crev").op(ovPOP)
	create()
	rec(0)
	a.push(0).push(0).op(ovREVERT)
	a.label("c2kill").op(ovPOP)
	create2()
	rec(0)
	a.push(1).push(0x8000).op(ovMSTORE8)
	a.op(ovCALLER).push(0x8001).op(ovMSTORE)
	a.push(0).push(0).push(33).push(0x8000).push(0).op(ovDUP6, ovGAS, ovCALL) // child.kill(caller)
	a.push(1).op(ovADD).sstoreTo(2)                                           // [isz addr]
	a.op(ovPOP)
	create2()
	rec(3)
	a.op(ovSTOP)
	a.label("c2twice").op(ovPOP)
	create2()
	rec(0)
	a.op(ovPOP)
	create2()
	rec(3)
	a.op(ovSTOP)
	// payc2: child address = keccak(0xff ++ self ++ salt ++ keccak(init))[12:], computed at 0x8000
	a.label("payc2").op(ovPOP) // [isz]
	a.push(0xff).push(0x8000).op(ovMSTORE8)
	a.op(ovADDRESS).push(96).op(ovSHL).push(0x8001).op(ovMSTORE)
	a.arg(0).push(0x8015).op(ovMSTORE)
	a.op(ovDUP1).push(0).op(ovSHA3).push(0x8035).op(ovMSTORE)
	a.push(85).push(0x8000).op(ovSHA3)
	a.pushB(bytes.Repeat([]byte{0xff}, 20)).op(ovAND)                   // [isz addr]
	a.push(0).push(0).push(0).push(0).arg(1).op(ovDUP6, ovGAS, ovCALL) // pay the future child
	a.op(ovPOP, ovPOP)                                                  // [isz]
	a.arg(0).op(ovDUP2).push(0).push(0).op(ovCREATE2)                   // [isz child]
	rec(0)
	a.op(ovSTOP)
	return a.bytes()
}

// killable: 1 kill(beneficiary) 2 set(v) -> slot 0 3 LOG0(slot0,slot1) 4 kill(self) 5 set(v)+kill(beneficiary)
// Its constructor increments slot 1 (a resurrection counter: after destroy + re-create it must be 1 again).
func olvmKillCode() []byte {
	a := newOlvmAsm()
	a.sel().caseOf(1, "kill").caseOf(2, "set").caseOf(3, "get").caseOf(4, "killself").caseOf(5, "setkill")
	a.op(ovSTOP)
	a.label("kill").arg(0).op(ovSELFDESTRUCT)
	a.label("set").arg(0).push(0).op(ovSSTORE, ovSTOP)
	a.label("get").push(0).op(ovSLOAD).push(0).op(ovMSTORE).push(1).op(ovSLOAD).push(32).op(ovMSTORE).push(64).push(0).op(ovLOG0, ovSTOP)
	a.label("killself").op(ovADDRESS, ovSELFDESTRUCT)
	a.label("setkill").arg(1).push(0).op(ovSSTORE).arg(0).op(ovSELFDESTRUCT)
	return a.bytes()
}

func olvmKillCtor() []byte {
	return newOlvmAsm().push(1).op(ovSLOAD).push(1).op(ovADD).sstoreTo(1).bytes()
}

// echo: RETURN(calldata)
func olvmEchoCode() []byte {
	return newOlvmAsm().op(ovCALLDATASIZE).push(0).push(0).op(ovCALLDATACOPY, ovCALLDATASIZE).push(0).op(ovRETURN).bytes()
}

var olvmKinds = []string{"store", "proxy", "rev", "log", "env", "factory", "kill", "echo"}

// olvmInit returns the init code of a contract kind.
func olvmInit(kind string) []byte {
	switch kind {
	case "store":
		return olvmDeploy(nil, olvmStoreCode())
	case "proxy":
		return olvmDeploy(nil, olvmProxyCode())
	case "rev":
		return olvmDeploy(nil, olvmRevCode())
	case "log":
		return olvmDeploy(nil, olvmLogCode())
	case "env":
		return olvmDeploy(nil, olvmEnvCode())
	case "factory":
		return olvmDeploy(nil, olvmFactoryCode())
	case "kill":
		return olvmDeploy(olvmKillCtor(), olvmKillCode())
	default:
		return olvmDeploy(nil, olvmEchoCode())
	}
}

// ---------------------------------------------------------------------------------------------
// calldata encoders
// ---------------------------------------------------------------------------------------------

func olvmWord(x uint64) []byte { return ethcmn.LeftPadBytes(new(big.Int).SetUint64(x).Bytes(), 32) }
func olvmWordBig(x *big.Int) []byte {
	if x == nil {
		return make([]byte, 32)
	}
	return ethcmn.LeftPadBytes(x.Bytes(), 32)
}
func olvmAddrWord(a ethcmn.Address) []byte { return ethcmn.LeftPadBytes(a.Bytes(), 32) }

func olvmData(sel byte, words ...[]byte) []byte {
	out := []byte{sel}
	for _, w := range words {
		out = append(out, w...)
	}
	return out
}

func olvmProxyData(mode byte, target ethcmn.Address, value *big.Int, inner []byte) []byte {
	return olvmData(mode, olvmAddrWord(target), olvmWordBig(value), inner)
}

func olvmFactoryData(mode byte, salt []byte, value *big.Int, init []byte) []byte {
	return olvmData(mode, ethcmn.LeftPadBytes(salt, 32), olvmWordBig(value), init)
}

// ---------------------------------------------------------------------------------------------
// session state and state view
// ---------------------------------------------------------------------------------------------

type olvmContract struct {
	Kind   string
	Addr   ethcmn.Address
	Born   int64 // height of the block the creation was emitted for
	Live   bool  // code seen in committed state
	Dead   bool  // was live, code gone (self-destructed)
	Parent *ethcmn.Address
	Salt   []byte // CREATE2 children: salt and init code (to re-create after SELFDESTRUCT)
	Init   []byte
}

type olvmState struct {
	Contracts  []*olvmContract
	Extras     []*core.Account
	FundedAt   map[string]int64  // extra label -> height of the last funding attempt
	LastBelief map[string]uint64 // eth user label -> c.S.EthNonce value at the end of my previous Gen
	BigDone    bool
	Old        [][]byte                // some earlier OLVM transactions (replays)
	busy       map[ethcmn.Address]bool // per block: factories that already create in this block
}

func olvmGetState(c *Ctx) *olvmState {
	if st, ok := c.S.M["olvm"].(*olvmState); ok && st != nil {
		return st
	}
	st := &olvmState{FundedAt: map[string]int64{}, LastBelief: map[string]uint64{}}
	for i := 0; i < 4; i++ {
		st.Extras = append(st.Extras, core.NewEthAccount(c.W.Seed, "olvmx"+strconv.Itoa(i)))
	}
	c.S.M["olvm"] = st
	return st
}

type olvmView struct {
	keeper balance.AccountKeeper
	cs     *evm.ContractStore
	ref    *core.Replica
}

var olvmEmptyCodeHash = ethcrypto.Keccak256(nil)

func olvmNewView(c *Ctx) *olvmView {
	st := c.Ref.ReadState()
	cur := balance.NewCurrencySet()
	if c.W.AppState != nil {
		for _, cu := range c.W.AppState.Currencies {
			_ = cur.Register(cu)
		}
	}
	return &olvmView{
		keeper: balance.NewNesterAccountKeeper(st, balance.NewStore("b", st), cur),
		cs:     evm.NewContractStore(st),
		ref:    c.Ref,
	}
}

func olvmKey(a ethcmn.Address) keys.Address { return keys.Address(append([]byte{}, a.Bytes()...)) }

func (v *olvmView) nonce(a ethcmn.Address) uint64 { return v.keeper.GetNonce(olvmKey(a)) }
func (v *olvmView) hasCode(a ethcmn.Address) bool {
	acc, err := v.keeper.GetAccount(olvmKey(a))
	if err != nil || acc == nil {
		return false
	}
	return len(acc.CodeHash) > 0 && !bytes.Equal(acc.CodeHash, olvmEmptyCodeHash)
}
func (v *olvmView) bal(a ethcmn.Address) *big.Int { return v.ref.BalanceOf(olvmKey(a), "OLT") }
func (v *olvmView) slotSet(a ethcmn.Address, slot uint64) bool {
	k := utils.GetStorageByAddressKey(a, olvmWord(slot))
	raw, err := v.cs.Get(evm.AddressStoragePrefix(a), k.Bytes())
	return err == nil && len(raw) > 0
}

func olvmEth(a *core.Account) ethcmn.Address { return ethcmn.BytesToAddress(a.Addr.Bytes()) }

// reconcile compares what the generator believes with the committed state.
func (st *olvmState) reconcile(c *Ctx, v *olvmView) {
	keep := st.Contracts[:0]
	for _, k := range st.Contracts {
		code := v.hasCode(k.Addr)
		switch {
		case code:
			k.Live, k.Dead = true, false
		case k.Live:
			k.Live, k.Dead = false, true
		case !k.Dead && c.H-k.Born > 3:
			continue // creation never landed
		}
		keep = append(keep, k)
	}
	st.Contracts = keep
	// bound the memory: forget the oldest graves / extra contracts
	if len(st.Contracts) > 64 {
		st.Contracts = st.Contracts[len(st.Contracts)-64:]
	}
	st.busy = map[ethcmn.Address]bool{}
}

func (st *olvmState) of(kind string, live, dead bool) []*olvmContract {
	var out []*olvmContract
	for _, k := range st.Contracts {
		if (kind == "" || k.Kind == kind) && ((live && k.Live) || (dead && k.Dead)) {
			out = append(out, k)
		}
	}
	return out
}

func (st *olvmState) pending(kind string) int {
	n := 0
	for _, k := range st.Contracts {
		if k.Kind == kind && !k.Dead {
			n++
		}
	}
	return n
}

func (st *olvmState) pick(c *Ctx, kind string) *olvmContract {
	l := st.of(kind, true, false)
	if len(l) == 0 {
		return nil
	}
	return l[c.Rng.Intn(len(l))]
}

func (st *olvmState) known(a ethcmn.Address) *olvmContract {
	for _, k := range st.Contracts {
		if k.Addr == a {
			return k
		}
	}
	return nil
}

// ---------------------------------------------------------------------------------------------
// senders
// ---------------------------------------------------------------------------------------------

type olvmSender struct {
	acc   *core.Account
	nonce uint64
	exact bool // nonce equals the committed account nonce
	user  bool // one of c.W.EthUsers (shared with other generators through c.S.EthNonce)
}

func (st *olvmState) senders(c *Ctx, v *olvmView) []*olvmSender {
	var out []*olvmSender
	one := nueOf(1)
	for _, u := range c.W.EthUsers {
		sn := v.nonce(olvmEth(u))
		b := c.S.EthNonce[u.Label]
		if b < sn || (b > sn && b == st.LastBelief[u.Label]) {
			b = sn // heal a belief that fell behind, or that drifted ahead because a transaction failed
			c.S.EthNonce[u.Label] = b
		}
		if v.bal(olvmEth(u)).Cmp(one) >= 0 {
			out = append(out, &olvmSender{acc: u, nonce: b, exact: b == sn, user: true})
		}
	}
	for _, x := range st.Extras {
		if v.bal(olvmEth(x)).Cmp(one) >= 0 {
			out = append(out, &olvmSender{acc: x, nonce: v.nonce(olvmEth(x)), exact: true})
		}
	}
	c.Rng.Shuffle(len(out), func(i, j int) { out[i], out[j] = out[j], out[i] })
	return out
}

func olvmGasPrice() *big.Int { return big.NewInt(1000000000) }

// txOpt are the knobs of one transaction; zero values mean "normal".
type olvmOpt struct {
	nonce  *uint64
	price  *big.Int
	memo   *string
	chain  *big.Int
	rawTo  *keys.Address // overrides `to` (odd lengths)
	noBump bool          // expected to fail the pre-checks: the shared nonce belief is not advanced
}

func (st *olvmState) tx(c *Ctx, s *olvmSender, to *ethcmn.Address, value *big.Int, data []byte, gas int64, kind string, o *olvmOpt) Tx {
	if o == nil {
		o = &olvmOpt{}
	}
	if value == nil {
		value = new(big.Int)
	}
	var toK *keys.Address
	if to != nil {
		k := olvmKey(*to)
		toK = &k
	}
	if o.rawTo != nil {
		toK = o.rawTo
	}
	nonce := s.nonce
	if o.nonce != nil {
		nonce = *o.nonce
	}
	price := olvmGasPrice()
	if o.price != nil {
		price = o.price
	}
	b := core.BuildOLVM(c.W.ChainID, s.acc, toK, nonce, value, data, gas, price, o.memo, o.chain)
	if !o.noBump {
		if s.user && c.S.EthNonce[s.acc.Label] < nonce+1 {
			c.S.EthNonce[s.acc.Label] = nonce + 1
		}
		s.nonce = nonce + 1
		s.exact = false
	}
	if len(b) < 4096 && c.Rng.Intn(4) == 0 {
		st.Old = append(st.Old, b)
		if len(st.Old) > 32 {
			st.Old = st.Old[1:]
		}
	}
	return Tx{Bytes: b, Kind: kind}
}

func (st *olvmState) fresh(c *Ctx) ethcmn.Address {
	var b [20]byte
	c.Rng.Read(b[:])
	b[0] = 0xf0 // keep clear of the precompile range
	return ethcmn.BytesToAddress(b[:])
}

func olvmSmall(c *Ctx) *big.Int {
	return new(big.Int).Add(big.NewInt(1), bigRand(c.Rng, nueOf(3)))
}

func olvmRandBytes(c *Ctx, n int) []byte {
	b := make([]byte, n)
	c.Rng.Read(b)
	return b
}

// olvmMutate re-encodes a signed OLVM transaction after changing its payload; the signature is kept
// (it covers only nonce/to/value/gas/price/data, so AccessList and TxType are not signed at all, and
// DeliverTx does not look at the signature).
func olvmMutate(b []byte, f func(m *olvm.Transaction)) []byte {
	stx := core.DecodeTx(b)
	if stx == nil {
		return b
	}
	m := &olvm.Transaction{}
	if err := m.Unmarshal(stx.RawTx.Data); err != nil {
		return b
	}
	f(m)
	d, err := m.Marshal()
	if err != nil {
		return b
	}
	stx.RawTx.Data = d
	out, err := serialize.GetSerializer(serialize.NETWORK).Serialize(stx)
	if err != nil {
		return b
	}
	return out
}

// ---------------------------------------------------------------------------------------------
// the generator
// ---------------------------------------------------------------------------------------------

type Olvm struct{}

func (Olvm) Name() string { return "olvm" }

func (Olvm) Gen(c *Ctx) []Tx {
	if c == nil || c.Ref == nil || c.Ref.App == nil || c.W == nil || c.S == nil || c.Rng == nil || len(c.W.EthUsers) == 0 {
		return nil
	}
	if c.S.M == nil {
		c.S.M = map[string]interface{}{}
	}
	if c.S.EthNonce == nil {
		c.S.EthNonce = map[string]uint64{}
	}
	st := olvmGetState(c)
	v := olvmNewView(c)
	st.reconcile(c, v)
	out := st.fund(c, v)
	snd := st.senders(c, v)
	if c.Rng.Intn(7) == 0 {
		out = append(st.staleScenario(c, v, &snd), out...)
	}
	if olvmFlag(c, "olvm-basefee", OlvmBasefee) && c.Rng.Intn(6) == 0 {
		out = append(st.panicScenario(c, &snd), out...)
	}
	n := 1
	switch r := c.Rng.Intn(10); {
	case r >= 8:
		n = 3
	case r >= 4:
		n = 2
	}
	for i := 0; i < n && len(snd) > 0 && len(out) < 5; i++ {
		s := snd[0]
		snd = snd[1:]
		out = append(out, st.one(c, v, s, &snd)...)
	}
	if len(out) > 5 {
		out = out[:5]
	}
	for _, u := range c.W.EthUsers {
		st.LastBelief[u.Label] = c.S.EthNonce[u.Label]
	}
	return out
}

// staleScenario: an OLVM transaction of account X that fails inside the state transition after it read
// X's account (stale nonce, or gas cost above the balance), then a native transaction that changes X's
// balance, then a successful OLVM transaction that touches X again; the three keep their order in the
// block. Whatever the failed transaction left behind in the VM's object cache would show in the third.
func (st *olvmState) staleScenario(c *Ctx, v *olvmView, snd *[]*olvmSender) []Tx {
	if len(*snd) < 2 || len(c.W.Users) == 0 {
		return nil
	}
	x := (*snd)[0]
	y := (*snd)[1]
	*snd = (*snd)[2:]
	if !x.exact || !y.exact {
		return nil
	}
	grp := "stale" + strconv.FormatInt(c.H, 10)
	xa := olvmEth(x.acc)
	ya := olvmEth(y.acc)
	balX := v.bal(xa)
	var out []Tx
	// 1. fails in the state transition, nothing written
	if lim := c.W.Knobs.MaxGas; lim > 0 && lim < 100000000 && c.Rng.Intn(4) != 0 {
		// passes every stateless and balance check, but asks for more gas than a block can hold
		g := lim + 1 + c.Rng.Int63n(100000000-lim)
		out = append(out, st.tx(c, x, &ya, olvmSmall(c), nil, g, "OLVM/stale-gas-above-block-limit", &olvmOpt{noBump: true}))
	} else if x.nonce > 0 && c.Rng.Intn(2) == 0 {
		out = append(out, st.tx(c, x, &ya, olvmSmall(c), nil, 50000, "OLVM/stale-nonce-low", &olvmOpt{nonce: olvmU64p(x.nonce - 1), noBump: true}))
	} else {
		p := new(big.Int).Add(new(big.Int).Div(balX, big.NewInt(100000)), big.NewInt(1))
		out = append(out, st.tx(c, x, &ya, nil, nil, 100000, "OLVM/stale-cost-gt-balance", &olvmOpt{price: p, noBump: true}))
	}
	// 2. native change of X's balance (an ETHSECP key cannot sign a native transaction, so it is always a credit)
	{
		from := c.W.Users[pick(c.Rng, len(c.W.Users))]
		msg := &transfer.Send{From: from.Addr, To: x.acc.Addr, Amount: core.OLT(nueOf(int64(10 + c.Rng.Intn(500))))}
		out = append(out, Tx{Bytes: core.BuildTx(msg, core.DefaultFee(), memo(c), from), Kind: "SEND/stale-credit"})
	}
	// 3. successful OLVM transaction touching X
	if c.Rng.Intn(2) == 0 {
		out = append(out, st.tx(c, y, &xa, olvmSmall(c), nil, 50000, "OLVM/stale-pay-x", nil))
	} else {
		out = append(out, st.tx(c, x, &ya, olvmSmall(c), nil, 50000, "OLVM/stale-x-pays", nil))
	}
	for i := range out {
		out[i].Group = grp
	}
	return out
}

// panicScenario: a call that moves value into a contract and then panics inside the EVM (BASEFEE with a nil
// base fee; the controller answers the panic with an error code and drops the transaction), then - in
// this order in the same block - a call by another account that moves value into the same contract.
// Whatever the aborted transaction left behind in the VM's object cache would be written by the second.
func (st *olvmState) panicScenario(c *Ctx, snd *[]*olvmSender) []Tx {
	k := st.pick(c, "env")
	if k == nil || len(*snd) < 2 {
		return nil
	}
	x, y := (*snd)[0], (*snd)[1]
	*snd = (*snd)[2:]
	grp := "panic" + strconv.FormatInt(c.H, 10)
	first := st.tx(c, x, &k.Addr, olvmSmall(c), olvmData(4), 200000, "OLVM/basefee-with-value", &olvmOpt{noBump: true})
	if c.Rng.Intn(2) == 0 {
		// the aborted transaction had already emitted a log
		first = st.tx(c, x, &k.Addr, nil, olvmData(8), 200000, "OLVM/log-then-basefee", &olvmOpt{noBump: true})
	}
	out := []Tx{
		first,
		st.tx(c, y, &k.Addr, olvmSmall(c), olvmData(2), 200000, "OLVM/env-log-after-panic", nil),
	}
	if c.Rng.Intn(3) == 0 {
		// the aborted transaction had read a third address; the next one reads the same address (what a read costs
		// depends on whether the address was already read in the same transaction, never on an earlier one)
		third := ethcmn.BytesToAddress(c.W.Users[pick(c.Rng, len(c.W.Users))].Addr)
		out = []Tx{
			st.tx(c, x, &k.Addr, nil, olvmData(9, ethcmn.LeftPadBytes(third.Bytes(), 32)), 200000, "OLVM/probe-then-basefee", &olvmOpt{noBump: true}),
			st.tx(c, y, &k.Addr, nil, olvmData(6, ethcmn.LeftPadBytes(third.Bytes(), 32)), 300000, "OLVM/env-probe-after-panic", nil),
		}
	}
	for i := range out {
		out[i].Group = grp
	}
	return out
}

// fund keeps the generator's own eth accounts funded: extras 0..2 by ed25519 users (native SEND to an
// address that has never been seen), extra 3 only through OLVM value transfers (see valueOps).
func (st *olvmState) fund(c *Ctx, v *olvmView) []Tx {
	var out []Tx
	if len(c.W.Users) == 0 {
		return nil
	}
	for i, x := range st.Extras {
		if i == 3 || len(out) >= 2 {
			continue
		}
		if v.bal(olvmEth(x)).Cmp(nueOf(100)) >= 0 {
			continue
		}
		if h, ok := st.FundedAt[x.Label]; ok && c.H-h < 3 {
			continue
		}
		from := c.W.Users[pick(c.Rng, len(c.W.Users))]
		if c.Ref.BalanceOf(from.Addr, "OLT").Cmp(nueOf(30000)) < 0 {
			continue
		}
		st.FundedAt[x.Label] = c.H
		msg := &transfer.Send{From: from.Addr, To: x.Addr, Amount: core.OLT(nueOf(20000))}
		out = append(out, Tx{Bytes: core.BuildTx(msg, core.DefaultFee(), memo(c), from), Kind: "OLVM/fund-ed"})
	}
	return out
}

// one produces the transaction(s) of one sender for this block.
func (st *olvmState) one(c *Ctx, v *olvmView, s *olvmSender, rest *[]*olvmSender) []Tx {
	// bootstrap: make sure every contract kind exists
	if s.exact {
		var missing []string
		for _, k := range olvmKinds {
			if st.pending(k) == 0 {
				missing = append(missing, k)
			}
		}
		if len(missing) > 0 && c.Rng.Intn(10) < 7 {
			return st.create(c, s, missing[c.Rng.Intn(len(missing))], nil, rest)
		}
	}
	if !s.user && s.exact && c.Rng.Intn(10) == 0 {
		// "send max": the whole balance leaves in one plain transfer, nothing is refunded, the account is left
		// with exactly zero (the generator's own accounts are topped up again by fund())
		cost := new(big.Int).Mul(big.NewInt(21000), olvmGasPrice())
		if bal := v.bal(olvmEth(s.acc)); bal.Cmp(cost) > 0 {
			to := olvmEth(c.W.EthUsers[c.Rng.Intn(len(c.W.EthUsers))])
			return []Tx{st.tx(c, s, &to, new(big.Int).Sub(bal, cost), nil, 21000, "OLVM/send-max", nil)}
		}
	}
	for try := 0; try < 4; try++ {
		var out []Tx
		switch r := c.Rng.Intn(100); {
		case r < 5:
			if s.exact {
				kind := olvmKinds[c.Rng.Intn(len(olvmKinds))]
				if len(st.of(kind, true, false)) < 3 {
					out = st.create(c, s, kind, nil, rest)
				}
			}
		case r < 19:
			out = st.storeOps(c, v, s)
		case r < 27:
			out = st.revOps(c, s)
		case r < 34:
			out = st.logOps(c, s)
		case r < 41:
			out = st.envOps(c, v, s)
		case r < 49:
			out = st.valueOps(c, v, s)
		case r < 67:
			out = st.proxyOps(c, v, s)
		case r < 75:
			out = st.factoryOps(c, v, s)
		case r < 86:
			out = st.killOps(c, v, s, rest)
		default:
			out = st.hostile(c, v, s, rest)
		}
		if len(out) > 0 {
			return out
		}
	}
	// nothing applicable yet: a plain transfer
	to := olvmEth(c.W.EthUsers[c.Rng.Intn(len(c.W.EthUsers))])
	return []Tx{st.tx(c, s, &to, olvmSmall(c), nil, 50000, "OLVM/transfer", nil)}
}

func (st *olvmState) create(c *Ctx, s *olvmSender, kind string, value *big.Int, rest *[]*olvmSender) []Tx {
	addr := ethcrypto.CreateAddress(olvmEth(s.acc), s.nonce)
	if st.known(addr) == nil {
		st.Contracts = append(st.Contracts, &olvmContract{Kind: kind, Addr: addr, Born: c.H})
	}
	label := "OLVM/create-" + kind
	if value != nil && value.Sign() > 0 {
		label = "OLVM/create-value"
	}
	out := []Tx{st.tx(c, s, nil, value, olvmInit(kind), 1500000, label, nil)}
	// another account calls the address in the same block (before or after the creation: order is shuffled)
	if rest != nil && len(*rest) > 0 && c.Rng.Intn(10) == 0 {
		s2 := (*rest)[0]
		*rest = (*rest)[1:]
		out = append(out, st.tx(c, s2, &addr, nil, olvmData(2, olvmWord(5), olvmWord(1)), 200000, "OLVM/sameblock-create-call", nil))
	}
	return out
}

func (st *olvmState) storeOps(c *Ctx, v *olvmView, s *olvmSender) []Tx {
	k := st.pick(c, "store")
	if k == nil {
		return nil
	}
	slot := uint64(c.Rng.Intn(6))
	set := v.slotSet(k.Addr, slot)
	val := olvmWord(uint64(1 + c.Rng.Intn(1000)))
	if c.Rng.Intn(4) == 0 {
		val = olvmRandBytes(c, 32)
	}
	var value *big.Int
	if c.Rng.Intn(8) == 0 {
		value = olvmSmall(c)
	}
	var data []byte
	label := ""
	switch r := c.Rng.Intn(20); {
	case r < 6:
		if set && c.Rng.Intn(2) == 0 {
			data, label = olvmData(1, olvmWord(slot), olvmWord(0)), "OLVM/sstore-clear"
		} else if set {
			data, label = olvmData(1, olvmWord(slot), val), "OLVM/sstore-overwrite"
		} else {
			data, label = olvmData(1, olvmWord(slot), val), "OLVM/sstore-set"
		}
	case r < 8:
		data, label = olvmData(1, olvmWord(slot), olvmWord(0)), "OLVM/sstore-zero"
		if set {
			label = "OLVM/sstore-clear"
		}
	case r < 11:
		v2 := olvmWord(uint64(c.Rng.Intn(3))) // 0 clears again, others overwrite
		data, label = olvmData(2, olvmWord(slot), val, v2), "OLVM/sstore-twice"
	case r < 13:
		data, label = olvmData(3, olvmWord(slot), val), "OLVM/sstore-set-clear"
	case r < 14:
		data, label = olvmData(4, olvmWord(slot)), "OLVM/sload"
	case r < 15:
		data, label = olvmData(7, olvmWord(slot), olvmWord(0x40+slot)), "OLVM/sstore-copy"
	case r < 17:
		data, label = olvmData(5, olvmWord(slot), val), "OLVM/sstore-revert"
	default:
		base := uint64(0x100 + 16*c.Rng.Intn(3))
		n := uint64(2 + c.Rng.Intn(12))
		if v.slotSet(k.Addr, base) {
			data, label = olvmData(6, olvmWord(base), olvmWord(0), olvmWord(16)), "OLVM/sstore-multi-clear"
		} else {
			data, label = olvmData(6, olvmWord(base), val, olvmWord(n)), "OLVM/sstore-multi-set"
		}
	}
	return []Tx{st.tx(c, s, &k.Addr, value, data, 600000, label, nil)}
}

func (st *olvmState) revOps(c *Ctx, s *olvmSender) []Tx {
	k := st.pick(c, "rev")
	if k == nil {
		return nil
	}
	labels := []string{"", "OLVM/revert-nodata", "OLVM/revert-data", "OLVM/invalid-op", "OLVM/oog-loop", "OLVM/undefined-op",
		"OLVM/stack-underflow", "OLVM/bad-jump", "OLVM/oog-memory", "OLVM/oog-after-sstore"}
	m := 1 + c.Rng.Intn(9)
	if c.Rng.Intn(3) == 0 {
		m = 1 + c.Rng.Intn(2)
	}
	data := olvmData(byte(m), olvmRandBytes(c, c.Rng.Intn(40)))
	var value *big.Int
	if c.Rng.Intn(3) == 0 {
		value = olvmSmall(c) // must come back to the sender
	}
	gas := int64(60000 + c.Rng.Intn(100000))
	return []Tx{st.tx(c, s, &k.Addr, value, data, gas, labels[m], nil)}
}

func (st *olvmState) logOps(c *Ctx, s *olvmSender) []Tx {
	k := st.pick(c, "log")
	if k == nil {
		return nil
	}
	m := c.Rng.Intn(7)
	label := "OLVM/log" + strconv.Itoa(m)
	switch m {
	case 5:
		label = "OLVM/log-revert"
	case 6:
		label = "OLVM/log-multi"
	}
	data := olvmData(byte(m), olvmRandBytes(c, 32), olvmRandBytes(c, c.Rng.Intn(64)))
	return []Tx{st.tx(c, s, &k.Addr, nil, data, 200000, label, nil)}
}

// target picks an interesting address to look at: EOA, live contract, destroyed contract, fresh, precompile.
func (st *olvmState) target(c *Ctx) ethcmn.Address {
	switch c.Rng.Intn(6) {
	case 0:
		return olvmEth(c.W.EthUsers[c.Rng.Intn(len(c.W.EthUsers))])
	case 1:
		if l := st.of("", true, false); len(l) > 0 {
			return l[c.Rng.Intn(len(l))].Addr
		}
	case 2, 3:
		if l := st.of("", false, true); len(l) > 0 {
			return l[c.Rng.Intn(len(l))].Addr
		}
	case 4:
		return ethcmn.BytesToAddress([]byte{byte(1 + c.Rng.Intn(9))})
	}
	return st.fresh(c)
}

func (st *olvmState) envOps(c *Ctx, v *olvmView, s *olvmSender) []Tx {
	k := st.pick(c, "env")
	if k == nil {
		return nil
	}
	var value *big.Int
	if c.Rng.Intn(4) == 0 {
		value = olvmSmall(c)
	}
	if olvmFlag(c, "olvm-blockhash", OlvmBlockhash) && c.Rng.Intn(3) == 0 {
		back := []uint64{1, 1, 1, 2, 3, 0, 255, 256, 257, 1000000}[c.Rng.Intn(10)]
		if c.Rng.Intn(3) == 0 {
			return []Tx{st.tx(c, s, &k.Addr, nil, olvmData(7, olvmWord(back)), 300000, "OLVM/blockhash-thrice", nil)}
		}
		return []Tx{st.tx(c, s, &k.Addr, nil, olvmData(3, olvmWord(back)), 200000, "OLVM/blockhash", nil)}
	}
	if olvmFlag(c, "olvm-basefee", OlvmBasefee) && c.Rng.Intn(4) == 0 {
		return []Tx{st.tx(c, s, &k.Addr, nil, olvmData(4), 200000, "OLVM/basefee", nil)}
	}
	r := c.Rng.Intn(8)
	switch {
	case r < 3:
		return []Tx{st.tx(c, s, &k.Addr, value, olvmData(1), 600000, "OLVM/env-store", nil)}
	case r < 5:
		return []Tx{st.tx(c, s, &k.Addr, value, olvmData(2), 200000, "OLVM/env-log", nil)}
	case r < 6:
		if v, _ := c.S.M["olvm-no-gaslimit"].(bool); v {
			// GASLIMIT exposes the block's running gas total (which a failed transaction may advance)
			return []Tx{st.tx(c, s, &k.Addr, value, olvmData(2), 200000, "OLVM/env-log", nil)}
		}
		return []Tx{st.tx(c, s, &k.Addr, nil, olvmData(5), 300000, "OLVM/env-ext", nil)}
	case r < 8:
		t := st.target(c)
		label := "OLVM/probe"
		if kk := st.known(t); kk != nil && kk.Dead {
			label = "OLVM/dead-probe"
		}
		return []Tx{st.tx(c, s, &k.Addr, nil, olvmData(6, olvmAddrWord(t)), 300000, label, nil)}
	}
	return []Tx{st.tx(c, s, &k.Addr, value, olvmData(2), 200000, "OLVM/env-log", nil)}
}

func (st *olvmState) valueOps(c *Ctx, v *olvmView, s *olvmSender) []Tx {
	// extra 3 lives on OLVM transfers only
	if x := st.Extras[3]; v.bal(olvmEth(x)).Cmp(nueOf(100)) < 0 && s.user && (c.H-st.FundedAt[x.Label] >= 3 || st.FundedAt[x.Label] == 0) {
		st.FundedAt[x.Label] = c.H
		to := olvmEth(x)
		return []Tx{st.tx(c, s, &to, nueOf(5000), nil, 50000, "OLVM/fund-eth", nil)}
	}
	switch c.Rng.Intn(10) {
	case 8:
		if len(c.W.Users) > 0 {
			to := ethcmn.BytesToAddress(c.W.Users[c.Rng.Intn(len(c.W.Users))].Addr.Bytes())
			return []Tx{st.tx(c, s, &to, olvmSmall(c), nil, 21000, "OLVM/value-to-native", nil)}
		}
	case 9:
		// a native SEND from an ed25519 account to a contract (or a destroyed contract): no code runs
		l := st.of("", true, true)
		if len(c.W.Users) > 0 && len(l) > 0 {
			from := c.W.Users[c.Rng.Intn(len(c.W.Users))]
			k := l[c.Rng.Intn(len(l))]
			msg := &transfer.Send{From: from.Addr, To: olvmKey(k.Addr), Amount: core.OLT(olvmSmall(c))}
			return []Tx{{Bytes: core.BuildTx(msg, core.DefaultFee(), memo(c), from), Kind: "OLVM/native-to-contract"}}
		}
	case 0:
		to := olvmEth(c.W.EthUsers[c.Rng.Intn(len(c.W.EthUsers))])
		return []Tx{st.tx(c, s, &to, olvmSmall(c), nil, 21000, "OLVM/transfer", nil)}
	case 1, 2:
		kinds := []string{"proxy", "factory", "kill", "store", "echo"}
		if k := st.pick(c, kinds[c.Rng.Intn(len(kinds))]); k != nil {
			return []Tx{st.tx(c, s, &k.Addr, olvmSmall(c), nil, 100000, "OLVM/value-to-contract", nil)}
		}
	case 3:
		to := st.fresh(c)
		return []Tx{st.tx(c, s, &to, olvmSmall(c), nil, 21000, "OLVM/value-to-fresh", nil)}
	case 4:
		to := st.fresh(c)
		return []Tx{st.tx(c, s, &to, nil, nil, 21000, "OLVM/zero-to-fresh", nil)} // EIP-158 touch of a non-existent account
	case 5:
		if l := st.of("", false, true); len(l) > 0 {
			k := l[c.Rng.Intn(len(l))]
			return []Tx{st.tx(c, s, &k.Addr, olvmSmall(c), nil, 100000, "OLVM/dead-value", nil)}
		}
	case 6:
		if c.Rng.Intn(2) == 0 {
			// pay the address at which one of the generator's accounts will create a contract soon
			x := st.Extras[c.Rng.Intn(len(st.Extras))]
			to := ethcrypto.CreateAddress(olvmEth(x), v.nonce(olvmEth(x))+uint64(c.Rng.Intn(3)))
			return []Tx{st.tx(c, s, &to, olvmSmall(c), nil, 21000, "OLVM/prefund-address", nil)}
		}
		to := olvmEth(s.acc)
		return []Tx{st.tx(c, s, &to, olvmSmall(c), nil, 21000, "OLVM/transfer-self", nil)}
	default:
		to := ethcmn.BytesToAddress([]byte{byte(1 + c.Rng.Intn(9))})
		return []Tx{st.tx(c, s, &to, big.NewInt(int64(c.Rng.Intn(3))), olvmRandBytes(c, c.Rng.Intn(70)), 200000, "OLVM/precompile-direct", nil)}
	}
	return nil
}

func olvmEcrecoverInput(c *Ctx, signer *core.Account, valid bool) []byte {
	h := ethcrypto.Keccak256(olvmRandBytes(c, 16))
	sig, err := ethcrypto.Sign(h, signer.ECDSA())
	if err != nil || len(sig) != 65 {
		return make([]byte, 128)
	}
	vv := uint64(sig[64]) + 27
	if !valid {
		vv = 29
	}
	return bytes.Join([][]byte{h, olvmWord(vv), sig[:32], sig[32:64]}, nil)
}

func (st *olvmState) proxyOps(c *Ctx, v *olvmView, s *olvmSender) []Tx {
	p := st.pick(c, "proxy")
	if p == nil {
		return nil
	}
	zero := new(big.Int)
	send := func(mode byte, target ethcmn.Address, inner []byte, callValue, txValue *big.Int, gas int64, label string) []Tx {
		return []Tx{st.tx(c, s, &p.Addr, txValue, olvmProxyData(mode, target, callValue, inner), gas, label, nil)}
	}
	slot := olvmWord(uint64(c.Rng.Intn(6)))
	val := olvmWord(uint64(c.Rng.Intn(500))) // sometimes zero
	switch r := c.Rng.Intn(30); {
	case r < 3:
		if k := st.pick(c, "store"); k != nil {
			return send(1, k.Addr, olvmData(1, slot, val), zero, nil, 400000, "OLVM/call-store")
		}
	case r < 5:
		if k := st.pick(c, "store"); k != nil {
			return send(2, k.Addr, olvmData(1, slot, val), zero, nil, 400000, "OLVM/delegatecall-store")
		}
	case r < 7:
		if k := st.pick(c, "store"); k != nil {
			return send(3, k.Addr, olvmData(1, slot, olvmWord(77)), zero, nil, 400000, "OLVM/staticcall-write")
		}
	case r < 8:
		if k := st.pick(c, "store"); k != nil {
			return send(3, k.Addr, olvmData(4, slot), zero, nil, 400000, "OLVM/staticcall-sload")
		}
	case r < 9:
		if k := st.pick(c, "store"); k != nil {
			return send(4, k.Addr, olvmData(1, slot, val), zero, nil, 400000, "OLVM/callcode-store")
		}
	case r < 11:
		if k := st.pick(c, "rev"); k != nil {
			m := byte(1 + c.Rng.Intn(9))
			return send(1, k.Addr, olvmData(m, olvmRandBytes(c, 8)), zero, nil, 300000, "OLVM/call-reverter")
		}
	case r < 12:
		if k := st.pick(c, "store"); k != nil {
			g := new(big.Int).SetUint64(uint64(100 + c.Rng.Intn(25000)))
			return send(5, k.Addr, olvmData(1, slot, olvmWord(5)), g, nil, 400000, "OLVM/call-lowgas")
		}
	case r < 14:
		if k := st.pick(c, "store"); k != nil {
			return send(6, k.Addr, olvmData(1, slot, olvmWord(99)), zero, nil, 400000, "OLVM/call-then-revert")
		}
	case r < 15:
		if k := st.pick(c, "store"); k != nil {
			return send(7, k.Addr, olvmData(1, slot, val), zero, nil, 400000, "OLVM/call-twice")
		}
	case r < 17:
		// value out of the proxy's own balance (or forwarded from this transaction)
		amt := olvmSmall(c)
		to := st.fresh(c)
		label := "OLVM/call-value-fresh"
		if c.Rng.Intn(2) == 0 {
			if k := st.pick(c, []string{"kill", "store", "factory"}[c.Rng.Intn(3)]); k != nil {
				to, label = k.Addr, "OLVM/call-value-contract"
			}
		}
		if v.bal(p.Addr).Cmp(amt) >= 0 && c.Rng.Intn(2) == 0 {
			return send(1, to, nil, amt, nil, 300000, label+"-own")
		}
		return send(1, to, nil, amt, new(big.Int).Mul(amt, big.NewInt(2)), 300000, label+"-forward") // half of it stays in the proxy
	case r < 18:
		amt := new(big.Int).Add(v.bal(p.Addr), nueOf(1))
		return send(1, st.fresh(c), nil, amt, nil, 300000, "OLVM/call-value-insufficient")
	case r < 19:
		if k := st.pick(c, "echo"); k != nil {
			return send(byte(1+2*c.Rng.Intn(2)), k.Addr, olvmRandBytes(c, c.Rng.Intn(100)), zero, nil, 300000, "OLVM/call-echo")
		}
	case r < 20:
		if k := st.pick(c, "log"); k != nil {
			if c.Rng.Intn(2) == 0 {
				return send(3, k.Addr, olvmData(byte(c.Rng.Intn(5)), olvmRandBytes(c, 32)), zero, nil, 300000, "OLVM/staticcall-log")
			}
			return send(1, k.Addr, olvmData(byte(c.Rng.Intn(5)), olvmRandBytes(c, 32)), zero, nil, 300000, "OLVM/call-log")
		}
	case r < 22:
		// proxy -> proxy -> store ; with a STATICCALL at the outer level the inner write must fail
		p2 := st.pick(c, "proxy")
		k := st.pick(c, "store")
		if p2 != nil && k != nil {
			inner := olvmProxyData(1, k.Addr, zero, olvmData(1, slot, val))
			if c.Rng.Intn(2) == 0 {
				return send(3, p2.Addr, inner, zero, nil, 500000, "OLVM/staticcall-nested-write")
			}
			return send(1, p2.Addr, inner, zero, nil, 500000, "OLVM/call-nested")
		}
	case r < 23:
		signer := c.W.EthUsers[c.Rng.Intn(len(c.W.EthUsers))]
		in := olvmEcrecoverInput(c, signer, c.Rng.Intn(4) != 0)
		return send(byte(1+2*c.Rng.Intn(2)), ethcmn.BytesToAddress([]byte{1}), in, zero, nil, 300000, "OLVM/precompile-ecrecover")
	case r < 24:
		return send(byte(1+2*c.Rng.Intn(2)), ethcmn.BytesToAddress([]byte{2}), olvmRandBytes(c, c.Rng.Intn(100)), zero, nil, 300000, "OLVM/precompile-sha256")
	case r < 25:
		return send(byte(1+2*c.Rng.Intn(2)), ethcmn.BytesToAddress([]byte{4}), olvmRandBytes(c, c.Rng.Intn(100)), zero, nil, 300000, "OLVM/precompile-identity")
	case r < 26:
		pc := []byte{3, 5, 6, 7, 8, 9}[c.Rng.Intn(6)]
		if c.Rng.Intn(3) == 0 {
			// too little gas for the precompile (ripemd is the historical touch/revert special case)
			return send(5, ethcmn.BytesToAddress([]byte{pc}), olvmRandBytes(c, 64), big.NewInt(int64(10+c.Rng.Intn(500))), nil, 300000, "OLVM/precompile-lowgas")
		}
		return send(1, ethcmn.BytesToAddress([]byte{pc}), olvmRandBytes(c, 32*c.Rng.Intn(8)), zero, nil, 400000, "OLVM/precompile-other")
	case r < 28:
		if k := st.pick(c, "kill"); k != nil {
			ben := olvmAddrWord(st.beneficiary(c))
			switch c.Rng.Intn(3) {
			case 0:
				return send(6, k.Addr, olvmData(1, ben), zero, nil, 300000, "OLVM/call-kill-revert") // the contract must survive
			case 1:
				return send(7, k.Addr, olvmData(1, ben), zero, nil, 300000, "OLVM/call-kill-twice")
			}
			return send(1, k.Addr, olvmData(1, ben), zero, nil, 300000, "OLVM/call-kill")
		}
	case r < 29:
		// DELEGATECALL into kill(): the proxy itself is destroyed
		if k := st.pick(c, "kill"); k != nil && len(st.of("proxy", true, false)) > 1 {
			return send(2, k.Addr, olvmData(1, olvmAddrWord(st.beneficiary(c))), zero, nil, 300000, "OLVM/delegatecall-kill")
		}
	default:
		if l := st.of("", false, true); len(l) > 0 {
			k := l[c.Rng.Intn(len(l))]
			return send(1, k.Addr, olvmData(2, olvmWord(5)), zero, nil, 300000, "OLVM/call-dead")
		}
	}
	return nil
}

func (st *olvmState) beneficiary(c *Ctx) ethcmn.Address {
	switch c.Rng.Intn(5) {
	case 0:
		return olvmEth(c.W.EthUsers[c.Rng.Intn(len(c.W.EthUsers))])
	case 1:
		if l := st.of("", true, false); len(l) > 0 {
			return l[c.Rng.Intn(len(l))].Addr
		}
	case 2:
		if l := st.of("", false, true); len(l) > 0 {
			return l[c.Rng.Intn(len(l))].Addr
		}
	case 3:
		if len(c.W.Users) > 0 && c.Rng.Intn(2) == 0 {
			return ethcmn.BytesToAddress(c.W.Users[c.Rng.Intn(len(c.W.Users))].Addr.Bytes()) // a native ed25519 account
		}
		return olvmEth(st.Extras[c.Rng.Intn(len(st.Extras))])
	}
	return st.fresh(c)
}

func (st *olvmState) factoryOps(c *Ctx, v *olvmView, s *olvmSender) []Tx {
	f := st.pick(c, "factory")
	if f == nil || st.busy[f.Addr] {
		return nil
	}
	st.busy[f.Addr] = true
	// re-create a destroyed CREATE2 child (same salt, same init code) with priority
	if c.Rng.Intn(3) == 0 {
		for _, k := range st.of("", false, true) {
			if k.Parent != nil && *k.Parent == f.Addr && k.Salt != nil {
				return []Tx{st.tx(c, s, &f.Addr, nil, olvmFactoryData(2, k.Salt, new(big.Int), k.Init), 2500000, "OLVM/dead-recreate", nil)}
			}
		}
	}
	kind := "kill"
	if c.Rng.Intn(3) == 0 {
		kind = olvmKinds[c.Rng.Intn(len(olvmKinds))]
	}
	init := olvmInit(kind)
	salt := olvmWord(uint64(c.Rng.Intn(1 << 30)))
	endow := new(big.Int)
	var txValue *big.Int
	if c.Rng.Intn(4) == 0 {
		endow = olvmSmall(c)
		if v.bal(f.Addr).Cmp(endow) < 0 {
			txValue = endow
		}
	}
	c2 := ethcrypto.CreateAddress2(f.Addr, ethcmn.BytesToHash(salt), ethcrypto.Keccak256(init))
	track := func(addr ethcmn.Address, withSalt bool) {
		if st.known(addr) != nil {
			return
		}
		k := &olvmContract{Kind: kind, Addr: addr, Born: c.H, Parent: &f.Addr}
		if withSalt {
			k.Salt, k.Init = salt, init
		}
		st.Contracts = append(st.Contracts, k)
	}
	send := func(mode byte, in []byte, label string) []Tx {
		return []Tx{st.tx(c, s, &f.Addr, txValue, olvmFactoryData(mode, salt, endow, in), 2500000, label, nil)}
	}
	switch r := c.Rng.Intn(16); {
	case r < 3:
		track(ethcrypto.CreateAddress(f.Addr, v.nonce(f.Addr)), false)
		return send(1, init, "OLVM/create-inner")
	case r < 8:
		track(c2, true)
		return send(2, init, "OLVM/create2-inner")
	case r < 10:
		// same salt + init as a live child: address collision
		for _, k := range st.of("", true, false) {
			if k.Parent != nil && *k.Parent == f.Addr && k.Salt != nil {
				return []Tx{st.tx(c, s, &f.Addr, nil, olvmFactoryData(2, k.Salt, new(big.Int), k.Init), 2500000, "OLVM/create2-collision", nil)}
			}
		}
	case r < 11:
		track(c2, true)
		return send(3, init, "OLVM/create2-call")
	case r < 12:
		return send(4, init, "OLVM/create-inner-revert")
	case r < 13:
		kind, init = "kill", olvmInit("kill")
		return send(5, init, "OLVM/create2-kill-create2")
	case r < 14:
		track(c2, true)
		if c.Rng.Intn(2) == 0 {
			// value sent to the address first, contract created there afterwards, in one transaction
			endow = olvmSmall(c)
			if v.bal(f.Addr).Cmp(endow) < 0 {
				txValue = endow
			}
			return send(7, init, "OLVM/pay-then-create2")
		}
		return send(6, init, "OLVM/create2-twice")
	case r < 15:
		bad := [][]byte{
			newOlvmAsm().push(0).push(0).op(ovREVERT).bytes(),
			{ovINVALID},
			newOlvmAsm().push(0x6001).push(0).op(ovRETURN).bytes(),
			newOlvmAsm().push(0xef).push(0).op(ovMSTORE8).push(1).push(0).op(ovRETURN).bytes(),
		}
		return send(byte(1+c.Rng.Intn(2)), bad[c.Rng.Intn(len(bad))], "OLVM/create-inner-bad")
	default:
		// re-create a destroyed CREATE2 child (same salt, same init code)
		for _, k := range st.of("", false, true) {
			if k.Parent != nil && *k.Parent == f.Addr && k.Salt != nil {
				return []Tx{st.tx(c, s, &f.Addr, nil, olvmFactoryData(2, k.Salt, new(big.Int), k.Init), 2500000, "OLVM/dead-recreate", nil)}
			}
		}
	}
	return nil
}

func (st *olvmState) killOps(c *Ctx, v *olvmView, s *olvmSender, rest *[]*olvmSender) []Tx {
	k := st.pick(c, "kill")
	if k == nil {
		// nothing to kill: play with the graves instead
		if l := st.of("", false, true); len(l) > 0 {
			g := l[c.Rng.Intn(len(l))]
			return []Tx{st.tx(c, s, &g.Addr, nil, olvmData(2, olvmWord(9)), 100000, "OLVM/dead-call", nil)}
		}
		return nil
	}
	r := c.Rng.Intn(12)
	switch {
	case r < 2:
		return []Tx{st.tx(c, s, &k.Addr, nil, olvmData(2, olvmWord(uint64(c.Rng.Intn(50)))), 100000, "OLVM/kill-set", nil)}
	case r < 3:
		return []Tx{st.tx(c, s, &k.Addr, nil, olvmData(3), 100000, "OLVM/kill-get", nil)}
	case r < 4:
		if l := st.of("", false, true); len(l) > 0 {
			g := l[c.Rng.Intn(len(l))]
			return []Tx{st.tx(c, s, &g.Addr, nil, olvmData(2, olvmWord(9)), 100000, "OLVM/dead-call", nil)}
		}
		return nil
	}
	// keep at least a little population of killables alive
	if len(st.of("kill", true, false)) < 2 && c.Rng.Intn(2) == 0 {
		return nil
	}
	ben := st.beneficiary(c)
	label := "OLVM/kill"
	data := olvmData(1, olvmAddrWord(ben))
	switch {
	case ben == k.Addr || c.Rng.Intn(8) == 0:
		data, label = olvmData(4), "OLVM/kill-to-self"
	case v.hasCode(ben):
		label = "OLVM/kill-to-contract"
	case v.bal(ben).Sign() > 0 || v.nonce(ben) > 0:
		label = "OLVM/kill-to-existing"
	default:
		label = "OLVM/kill-to-fresh"
	}
	if c.Rng.Intn(6) == 0 && label != "OLVM/kill-to-self" {
		data, label = olvmData(5, olvmAddrWord(ben), olvmWord(123)), "OLVM/kill-set-kill"
	}
	var value *big.Int
	if c.Rng.Intn(3) == 0 {
		value = olvmSmall(c) // value sent together with the kill call goes to the beneficiary as well
	}
	out := []Tx{st.tx(c, s, &k.Addr, value, data, 200000, label, nil)}
	// same block: touch / call / fund / re-create the address that is being destroyed (order is shuffled)
	if rest != nil && len(*rest) > 0 && c.Rng.Intn(2) == 0 {
		s2 := (*rest)[0]
		*rest = (*rest)[1:]
		switch c.Rng.Intn(5) {
		case 0:
			out = append(out, st.tx(c, s2, &k.Addr, nil, olvmData(2, olvmWord(77)), 100000, "OLVM/sameblock-call", nil))
		case 1:
			out = append(out, st.tx(c, s2, &k.Addr, olvmSmall(c), nil, 100000, "OLVM/sameblock-value", nil))
		case 2:
			if e := st.pick(c, "env"); e != nil {
				out = append(out, st.tx(c, s2, &e.Addr, nil, olvmData(6, olvmAddrWord(k.Addr)), 300000, "OLVM/sameblock-probe", nil))
			}
		case 3:
			if k.Parent != nil && k.Salt != nil && !st.busy[*k.Parent] {
				if pk := st.known(*k.Parent); pk != nil && pk.Live {
					st.busy[*k.Parent] = true
					out = append(out, st.tx(c, s2, k.Parent, nil, olvmFactoryData(2, k.Salt, new(big.Int), k.Init), 2500000, "OLVM/sameblock-recreate", nil))
				}
			}
		default:
			out = append(out, st.tx(c, s2, &k.Addr, nil, olvmData(1, olvmAddrWord(st.beneficiary(c))), 200000, "OLVM/sameblock-kill-again", nil))
		}
	}
	return out
}

func (st *olvmState) hostile(c *Ctx, v *olvmView, s *olvmSender, rest *[]*olvmSender) []Tx {
	to := olvmEth(c.W.EthUsers[c.Rng.Intn(len(c.W.EthUsers))])
	amt := olvmSmall(c)
	balS := v.bal(olvmEth(s.acc))
	u64 := func(x uint64) *uint64 { return &x }
	str := func(x string) *string { return &x }
	// a cheap but state-changing payload for the variants that are expected to execute
	payload := func() (*ethcmn.Address, []byte, int64) {
		if k := st.pick(c, "store"); k != nil {
			return &k.Addr, olvmData(1, olvmWord(uint64(c.Rng.Intn(6))), olvmWord(uint64(1+c.Rng.Intn(9)))), 200000
		}
		return &to, nil, 21000
	}
	switch c.Rng.Intn(37) {
	case 31:
		// creation with a nonce gap: the contract address derives from the account nonce, not from the transaction nonce
		if !s.exact {
			return nil
		}
		kind := olvmKinds[c.Rng.Intn(len(olvmKinds))]
		addr := ethcrypto.CreateAddress(olvmEth(s.acc), s.nonce)
		if st.known(addr) == nil {
			st.Contracts = append(st.Contracts, &olvmContract{Kind: kind, Addr: addr, Born: c.H})
		}
		return []Tx{st.tx(c, s, nil, nil, olvmInit(kind), 1500000, "OLVM/create-nonce-gap", &olvmOpt{nonce: u64(s.nonce + 1 + uint64(c.Rng.Intn(3)))})}
	case 32:
		// From replaced by another account: the signature no longer matches (only CheckTx verifies it)
		var victim *core.Account
		for _, u := range c.W.EthUsers {
			if u != s.acc {
				victim = u
			}
		}
		if victim == nil {
			return nil
		}
		vn := v.nonce(olvmEth(victim))
		if b := c.S.EthNonce[victim.Label]; b > vn {
			vn = b
		}
		me := olvmEth(s.acc)
		t := st.tx(c, s, &me, amt, nil, 21000, "OLVM/forged-from", &olvmOpt{nonce: u64(vn), noBump: true})
		t.Bytes = olvmMutate(t.Bytes, func(m *olvm.Transaction) { m.From = victim.Addr })
		return []Tx{t}
	case 33:
		// unsigned fields: an access list (and a type) added after signing
		t, d, g := payload()
		tx := st.tx(c, s, t, nil, d, g+200000, "OLVM/accesslist-malleated", nil)
		n := 1 + c.Rng.Intn(12)
		tx.Bytes = olvmMutate(tx.Bytes, func(m *olvm.Transaction) {
			al := ethtypes.AccessList{}
			for i := 0; i < n; i++ {
				tup := ethtypes.AccessTuple{Address: st.target(c), StorageKeys: []ethcmn.Hash{}}
				if t != nil && i == 0 {
					tup.Address = *t
				}
				for j := c.Rng.Intn(4); j > 0; j-- {
					tup.StorageKeys = append(tup.StorageKeys, ethcmn.BytesToHash(olvmWord(uint64(c.Rng.Intn(6)))))
				}
				al = append(al, tup)
			}
			m.AccessList = &al
			m.TxType = int64(c.Rng.Intn(3))
		})
		return []Tx{tx}
	case 34:
		if c.Rng.Intn(2) == 0 {
			// the fee currency of the envelope is not covered by the Ethereum signature
			tx := st.tx(c, s, &to, amt, nil, 21000, "OLVM/fee-currency-hostile", &olvmOpt{noBump: true})
			cur := []string{"", "", "ETH", "NOPE", "olt"}[c.Rng.Intn(5)]
			if stx := core.DecodeTx(tx.Bytes); stx != nil {
				stx.Fee.Price.Currency = cur
				if b, err := serialize.GetSerializer(serialize.NETWORK).Serialize(stx); err == nil {
					tx.Bytes = b
					if cur == "" {
						tx.Kind = "OLVM/fee-currency-empty"
					}
				}
			}
			return []Tx{tx}
		}
		tx := st.tx(c, s, &to, amt, nil, 21000, "OLVM/currency-other", nil)
		cur := []string{"ETH", "BTC", "VT", "NOPE"}[c.Rng.Intn(4)]
		tx.Bytes = olvmMutate(tx.Bytes, func(m *olvm.Transaction) { m.Amount.Currency = cur })
		return []Tx{tx}
	case 35:
		// negative value towards a rich account (its balance must not go below zero in case this executes)
		if v.bal(to).Cmp(nueOf(100)) < 0 || to == olvmEth(s.acc) {
			return nil
		}
		tx := st.tx(c, s, &to, amt, nil, 21000, "OLVM/negative-value", nil)
		neg := new(big.Int).Neg(amt)
		tx.Bytes = olvmMutate(tx.Bytes, func(m *olvm.Transaction) {
			m.Amount = action.Amount{Currency: "OLT", Value: *balance.NewAmountFromBigInt(neg)}
		})
		return []Tx{tx}
	case 36:
		// signed by somebody else entirely but with a matching From: same as forged-from seen from the other side
		tx := st.tx(c, s, &to, amt, nil, 21000, "OLVM/bad-signature", nil)
		if stx := core.DecodeTx(tx.Bytes); stx != nil && len(stx.Signatures) == 1 && len(stx.Signatures[0].Signed) > 10 {
			stx.Signatures[0].Signed[5] ^= 0x40
			if b, err := serialize.GetSerializer(serialize.NETWORK).Serialize(stx); err == nil {
				tx.Bytes = b
			}
		}
		return []Tx{tx}
	case 0:
		t, d, g := payload()
		return []Tx{st.tx(c, s, t, nil, d, g, "OLVM/nonce-gap", &olvmOpt{nonce: u64(s.nonce + 1 + uint64(c.Rng.Intn(5)))})}
	case 1:
		if s.nonce == 0 {
			return nil
		}
		t, d, g := payload()
		return []Tx{st.tx(c, s, t, nil, d, g, "OLVM/nonce-low", &olvmOpt{nonce: u64(s.nonce - 1 - uint64(c.Rng.Int63n(int64(s.nonce)))), noBump: true})}
	case 2:
		t, d, g := payload()
		ch := big.NewInt(1)
		if c.Rng.Intn(2) == 0 {
			ch = new(big.Int).Add(utils.HashToBigInt(c.W.ChainID), big.NewInt(1))
		}
		return []Tx{st.tx(c, s, t, nil, d, g, "OLVM/wrong-chain", &olvmOpt{chain: ch})}
	case 3:
		t, d, g := payload()
		return []Tx{st.tx(c, s, t, nil, d, g, "OLVM/memo-mismatch", &olvmOpt{memo: str(strconv.FormatUint(s.nonce+1, 10))})}
	case 4:
		t, d, g := payload()
		return []Tx{st.tx(c, s, t, nil, d, g, "OLVM/memo-garbage", &olvmOpt{memo: str([]string{"", "abc", "-1", "0x1", memo(c)}[c.Rng.Intn(5)])})}
	case 5:
		t, d, g := payload()
		p := big.NewInt(999999999)
		if c.Rng.Intn(2) == 0 {
			p = big.NewInt(1)
		}
		return []Tx{st.tx(c, s, t, nil, d, g, "OLVM/gasprice-low", &olvmOpt{price: p})}
	case 6:
		t, d, g := payload()
		return []Tx{st.tx(c, s, t, nil, d, g, "OLVM/gasprice-zero", &olvmOpt{price: new(big.Int)})}
	case 7:
		switch c.Rng.Intn(3) {
		case 0:
			return []Tx{st.tx(c, s, &to, amt, nil, 20999, "OLVM/gas-below-intrinsic", &olvmOpt{noBump: true})}
		case 1:
			return []Tx{st.tx(c, s, nil, nil, olvmInit("echo"), 52999, "OLVM/gas-below-intrinsic", &olvmOpt{noBump: true})}
		}
		return []Tx{st.tx(c, s, &to, nil, []byte{1, 2, 3, 0}, 21000+3*16+4-1, "OLVM/gas-below-intrinsic", &olvmOpt{noBump: true})}
	case 8:
		return []Tx{st.tx(c, s, &to, new(big.Int).Add(balS, big.NewInt(1)), nil, 21000, "OLVM/value-gt-balance", &olvmOpt{noBump: true})}
	case 9:
		// value alone fits, value + gas does not
		return []Tx{st.tx(c, s, &to, new(big.Int).Sub(balS, big.NewInt(1000)), nil, 21000, "OLVM/value-plus-gas-gt-balance", &olvmOpt{noBump: true})}
	case 10:
		p := new(big.Int).Add(new(big.Int).Div(balS, big.NewInt(100000)), big.NewInt(1))
		return []Tx{st.tx(c, s, &to, nil, nil, 100000, "OLVM/cost-gt-balance", &olvmOpt{price: p, noBump: true})}
	case 11:
		// 1e12 gas at 1e9 nue is 1000 OLT: affordable, far above the 100M limit that only CheckTx enforces
		if balS.Cmp(nueOf(2000)) < 0 {
			return nil
		}
		t, d, _ := payload()
		return []Tx{st.tx(c, s, t, nil, d, 1000000000000, "OLVM/gas-huge", nil)}
	case 12:
		return []Tx{st.tx(c, s, &to, amt, nil, math.MaxInt64, "OLVM/gas-huge-unaffordable", &olvmOpt{noBump: true})}
	case 13:
		z := ethcmn.Address{}
		if c.Rng.Intn(2) == 0 {
			return []Tx{st.tx(c, s, &z, amt, nil, 50000, "OLVM/to-zero", nil)}
		}
		return []Tx{st.tx(c, s, &z, nil, olvmRandBytes(c, 20), 50000, "OLVM/to-zero", nil)}
	case 14:
		return []Tx{st.tx(c, s, &to, nil, olvmData(1, olvmWord(1), olvmWord(2)), 100000, "OLVM/data-to-eoa", nil)}
	case 15:
		var val *big.Int
		if c.Rng.Intn(2) == 0 {
			val = amt
		}
		return []Tx{st.tx(c, s, nil, val, nil, 100000, "OLVM/create-empty", nil)}
	case 16:
		init := newOlvmAsm().push(0x6001).push(0).op(ovRETURN).bytes()
		return []Tx{st.tx(c, s, nil, nil, init, 300000, "OLVM/create-oversize", nil)}
	case 17:
		if st.BigDone || !s.exact {
			return nil
		}
		st.BigDone = true
		init := newOlvmAsm().push(0x6000).push(0).op(ovRETURN).bytes()
		return []Tx{st.tx(c, s, nil, nil, init, 6000000, "OLVM/create-code-24576", nil)}
	case 18:
		init := newOlvmAsm().push(0).push(0).op(ovREVERT).bytes()
		if c.Rng.Intn(2) == 0 {
			init = newOlvmAsm().op(ovCODESIZE).push(0).push(0).op(ovCODECOPY, ovCODESIZE).push(0).op(ovREVERT).bytes()
		}
		return []Tx{st.tx(c, s, nil, amt, init, 200000, "OLVM/create-init-revert", nil)}
	case 19:
		init := newOlvmAsm().label("l").jump("l").bytes()
		return []Tx{st.tx(c, s, nil, nil, init, 120000, "OLVM/create-init-oog", nil)}
	case 20:
		return []Tx{st.tx(c, s, nil, nil, []byte{ovINVALID}, 120000, "OLVM/create-init-invalid", nil)}
	case 21:
		init := newOlvmAsm().push(0xef).push(0).op(ovMSTORE8).push(1).push(0).op(ovRETURN).bytes()
		return []Tx{st.tx(c, s, nil, nil, init, 200000, "OLVM/create-ef", nil)}
	case 22:
		// not enough gas for the code deposit (200 gas per byte)
		return []Tx{st.tx(c, s, nil, nil, olvmInit("proxy"), 53000+int64(16*len(olvmInit("proxy")))+1000, "OLVM/create-deposit-oog", nil)}
	case 23:
		if !s.exact {
			return nil
		}
		return st.create(c, s, olvmKinds[c.Rng.Intn(len(olvmKinds))], amt, nil)
	case 24:
		// two transactions of one sender, consecutive nonces, shuffled order inside the block
		t, d, g := payload()
		a := st.tx(c, s, t, nil, d, g, "OLVM/pair-seq", nil)
		b := st.tx(c, s, &to, amt, nil, 21000, "OLVM/pair-seq", nil)
		return []Tx{a, b}
	case 25:
		// both with nonce+1: each is a "gap" for the state it meets, so both execute in any order
		t, d, g := payload()
		n := s.nonce + 1
		a := st.tx(c, s, t, nil, d, g, "OLVM/pair-gap", &olvmOpt{nonce: u64(n)})
		b := st.tx(c, s, &to, amt, nil, 21000, "OLVM/pair-gap", &olvmOpt{nonce: u64(n)})
		return []Tx{a, b}
	case 26:
		t, d, g := payload()
		n := s.nonce
		a := st.tx(c, s, t, nil, d, g, "OLVM/dup-nonce", &olvmOpt{nonce: u64(n)})
		b := st.tx(c, s, &to, amt, nil, 21000, "OLVM/dup-nonce", &olvmOpt{nonce: u64(n)})
		return []Tx{a, b}
	case 27:
		broke := core.NewEthAccount(c.W.Seed, "olvm-broke"+strconv.Itoa(c.Rng.Intn(3)))
		bs := &olvmSender{acc: broke, nonce: v.nonce(olvmEth(broke))}
		return []Tx{st.tx(c, bs, &to, big.NewInt(1), nil, 21000, "OLVM/unfunded-sender", &olvmOpt{noBump: true})}
	case 28:
		if len(st.Old) == 0 {
			return nil
		}
		return []Tx{{Bytes: st.Old[c.Rng.Intn(len(st.Old))], Kind: "OLVM/replay"}}
	case 29:
		raw := keys.Address(olvmRandBytes(c, []int{19, 21, 32, 1}[c.Rng.Intn(4)]))
		return []Tx{st.tx(c, s, nil, amt, nil, 50000, "OLVM/to-badlen", &olvmOpt{rawTo: &raw})}
	default:
		// a contract address as the sender of a signed transaction is impossible; instead: the sender calls itself with data
		me := olvmEth(s.acc)
		return []Tx{st.tx(c, s, &me, nil, olvmRandBytes(c, 10), 50000, "OLVM/data-to-self", nil)}
	}
}

func init() { Register(Olvm{}) }

func olvmU64p(x uint64) *uint64 { return &x }

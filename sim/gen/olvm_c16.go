package gen

// Exported access to the OLVM assembler products for the C16 check (state-adapter seam), plus one
// more contract kind ("multi") that performs a list of calls given in its calldata.

import (
	"math/big"

	ethcmn "github.com/ethereum/go-ethereum/common"
)

// OlvmKinds lists the eight contract kinds of the OLVM generator.
func OlvmKinds() []string { return append([]string{}, olvmKinds...) }

// OlvmInit returns the init code of a contract kind ("multi" included).
func OlvmInit(kind string) []byte {
	if kind == "multi" {
		return olvmDeploy(nil, OlvmMultiCode())
	}
	return olvmInit(kind)
}

// OlvmRuntime returns the runtime code of a contract kind ("multi" included).
func OlvmRuntime(kind string) []byte {
	switch kind {
	case "store":
		return olvmStoreCode()
	case "proxy":
		return olvmProxyCode()
	case "rev":
		return olvmRevCode()
	case "log":
		return olvmLogCode()
	case "env":
		return olvmEnvCode()
	case "factory":
		return olvmFactoryCode()
	case "kill":
		return olvmKillCode()
	case "multi":
		return OlvmMultiCode()
	default:
		return olvmEchoCode()
	}
}

// OlvmDeploy wraps runtime code into init code.
func OlvmDeploy(ctor, runtime []byte) []byte { return olvmDeploy(ctor, runtime) }

func OlvmWord(x uint64) []byte                  { return olvmWord(x) }
func OlvmWordBig(x *big.Int) []byte             { return olvmWordBig(x) }
func OlvmAddrWord(a ethcmn.Address) []byte      { return olvmAddrWord(a) }
func OlvmData(sel byte, words ...[]byte) []byte { return olvmData(sel, words...) }
func OlvmProxyData(mode byte, target ethcmn.Address, value *big.Int, inner []byte) []byte {
	return olvmProxyData(mode, target, value, inner)
}
func OlvmFactoryData(mode byte, salt []byte, value *big.Int, init []byte) []byte {
	return olvmFactoryData(mode, salt, value, init)
}

// OlvmMultiCode: calldata = flag(1) then records target(32) value(32) len(32) data(len).
// Performs CALL(olvmFwdGas, target, value, data) for every record in order (results ignored), then
// stores the final read position into slot 0xfe; flag 1 => REVERT(0,0) at the end, otherwise STOP.
func OlvmMultiCode() []byte {
	const ptr = 0x8000
	a := newOlvmAsm()
	ld := func() { a.push(ptr).op(ovMLOAD) }
	a.push(1).push(ptr).op(ovMSTORE)
	a.label("loop")
	a.op(ovCALLDATASIZE)
	ld()
	a.op(ovLT, ovISZERO).jumpi("end")
	ld()
	a.push(64).op(ovADD, ovCALLDATALOAD) // [len]
	a.op(ovDUP1)
	ld()
	a.push(96).op(ovADD).push(0).op(ovCALLDATACOPY) // [len]
	a.push(0).push(0).op(ovDUP3).push(0)            // [len 0 0 len 0]
	ld()
	a.push(32).op(ovADD, ovCALLDATALOAD) // value
	ld()
	a.op(ovCALLDATALOAD)                 // target
	a.push(olvmFwdGas).op(ovCALL, ovPOP) // [len]
	ld()
	a.op(ovADD).push(96).op(ovADD).push(ptr).op(ovMSTORE)
	a.jump("loop")
	a.label("end")
	ld()
	a.sstoreTo(0xfe)
	a.sel().push(1).op(ovEQ).jumpi("rev")
	a.op(ovSTOP)
	a.label("rev").push(0).push(0).op(ovREVERT)
	return a.bytes()
}

// OlvmMultiRec is one call of a multi contract.
type OlvmMultiRec struct {
	Target ethcmn.Address
	Value  *big.Int
	Data   []byte
}

func OlvmMultiData(revert bool, recs ...OlvmMultiRec) []byte {
	out := []byte{0}
	if revert {
		out[0] = 1
	}
	for _, r := range recs {
		out = append(out, olvmAddrWord(r.Target)...)
		out = append(out, olvmWordBig(r.Value)...)
		out = append(out, olvmWord(uint64(len(r.Data)))...)
		out = append(out, r.Data...)
	}
	return out
}

package gen

import (
	"encoding/json"
	"sort"
	"strings"

	"github.com/Oneledger/protocol/action"
	"github.com/Oneledger/protocol/data/keys"
	"github.com/Oneledger/protocol/serialize"

	"olsim/core"
)

// Impersonator: well-formed transactions correctly signed by the attacker's OWN key that name other
// people's addresses in every other address field (source, owner, beneficiary, locker, funder,
// validator, stake address, delegator ...). It rewrites a transaction some honest client produced
// recently: one address field is set to the attacker (so that whatever field the handler requires to
// equal the signer may match), the others are set to victims; the attacker signs.
type Impersonator struct{}

func (Impersonator) Name() string { return "impersonator" }

func (Impersonator) Gen(c *Ctx) []Tx {
	if len(c.S.Sent) == 0 || len(c.W.Users) < 2 || c.Rng.Intn(10) >= 5 {
		return nil
	}
	var out []Tx
	n := 1 + c.Rng.Intn(2)
	for i := 0; i < n; i++ {
		lo := 0
		if len(c.S.Sent) > 40 {
			lo = len(c.S.Sent) - 40
		}
		src := c.S.Sent[lo+c.Rng.Intn(len(c.S.Sent)-lo)]
		if c.Rng.Intn(3) == 0 {
			if t := forge(c, src); t != nil {
				out = append(out, *t)
			}
			continue
		}
		if t := impersonate(c, src); t != nil {
			out = append(out, *t)
		}
	}
	return out
}

func impersonate(c *Ctx, src Tx) *Tx {
	tx := core.DecodeTx(src.Bytes)
	if tx == nil || tx.Type == action.OLVM {
		return nil
	}
	var payload interface{}
	if err := json.Unmarshal(tx.Data, &payload); err != nil {
		return nil
	}
	type spot struct {
		obj map[string]interface{}
		key string
	}
	var spots []spot
	var walk func(v interface{})
	walk = func(v interface{}) {
		switch x := v.(type) {
		case map[string]interface{}:
			ks := make([]string, 0, len(x))
			for k := range x {
				ks = append(ks, k)
			}
			sort.Strings(ks)
			for _, k := range ks {
				switch vv := x[k].(type) {
				case string:
					if strings.HasPrefix(vv, "0lt") && len(vv) == 43 {
						spots = append(spots, spot{x, k})
					}
				default:
					walk(vv)
				}
			}
		case []interface{}:
			for _, e := range x {
				walk(e)
			}
		}
	}
	walk(payload)
	if len(spots) == 0 {
		return nil
	}
	// attacker: a funded user (pays the fee himself); victims: everybody else incl. validators' stake accounts
	attacker := c.W.Users[c.Rng.Intn(len(c.W.Users))]
	var victims []string
	for _, u := range c.W.Users {
		if !u.Addr.Equal(attacker.Addr) {
			victims = append(victims, u.Addr.String())
		}
	}
	for _, vk := range c.W.Validators {
		victims = append(victims, vk.NodeKey.Addr.String(), vk.ValKey.Addr.String())
	}
	own := c.Rng.Intn(len(spots))
	label := ""
	for i, sp := range spots {
		if i == own {
			sp.obj[sp.key] = attacker.Addr.String()
			label = sp.key
		} else if c.Rng.Intn(4) != 0 {
			sp.obj[sp.key] = victims[c.Rng.Intn(len(victims))]
		}
	}
	if len(spots) == 1 && c.Rng.Intn(2) == 0 {
		// single address field: keep the victim there and sign as the attacker anyway
		spots[0].obj[spots[0].key] = victims[c.Rng.Intn(len(victims))]
		label = "none"
	}
	data, err := json.Marshal(payload)
	if err != nil {
		return nil
	}
	raw := action.RawTx{Type: tx.Type, Data: data, Fee: tx.Fee, Memo: memo(c)}
	signers := []*core.Account{attacker}
	if len(tx.Signatures) > 1 {
		// kinds with two signers: the attacker brings a second key of his own
		second := core.NewEdAccount(c.W.Seed, "attacker2")
		c.W.Register(second)
		signers = append(signers, second)
		if c.Rng.Intn(2) == 0 {
			signers[0], signers[1] = signers[1], signers[0]
		}
	}
	return &Tx{Bytes: core.SignRaw(raw, signers...), Kind: tx.Type.String() + "/impersonate:own=" + label}
}

// forge: the victim's transaction content (payload untouched: the victim stays source/owner/funder ...)
// under a fresh memo, "signed" with the victim's real PUBLIC key in the signer field and something that
// is not the victim's signature over this content in the signature field.
func forge(c *Ctx, src Tx) *Tx {
	tx := core.DecodeTx(src.Bytes)
	if tx == nil || tx.Type == action.OLVM || len(tx.Signatures) == 0 || len(c.W.Users) == 0 {
		return nil
	}
	raw := action.RawTx{Type: tx.Type, Data: tx.Data, Fee: tx.Fee, Memo: memo(c)}
	attacker := c.W.Users[c.Rng.Intn(len(c.W.Users))]
	variants := []string{"garbage-sig", "stale-sig", "empty-sig", "zero-sig", "attacker-sig-victim-key", "btcec-alias", "one-byte-off"}
	v := variants[c.Rng.Intn(len(variants))]
	sigs := make([]action.Signature, 0, len(tx.Signatures))
	for _, o := range tx.Signatures {
		sg := action.Signature{Signer: o.Signer}
		switch v {
		case "garbage-sig":
			sg.Signed = make([]byte, 64)
			c.Rng.Read(sg.Signed)
		case "stale-sig":
			sg.Signed = append([]byte{}, o.Signed...) // the victim's signature over the OLD content
		case "empty-sig":
			sg.Signed = []byte{}
		case "zero-sig":
			sg.Signed = make([]byte, 64)
		case "attacker-sig-victim-key":
			sg.Signed = attacker.Sign(raw.RawBytes())
		case "btcec-alias":
			// the same public key bytes under the bitcoin key type (whose verifier is a stub)
			sg.Signer = keys.PublicKey{KeyType: keys.BTCECSECP, Data: append([]byte{}, o.Signer.Data...)}
			sg.Signed = make([]byte, 64)
			c.Rng.Read(sg.Signed)
		case "one-byte-off":
			sg.Signed = append([]byte{}, o.Signed...)
			if len(sg.Signed) > 0 {
				sg.Signed[c.Rng.Intn(len(sg.Signed))] ^= 1 << uint(c.Rng.Intn(8))
			}
		}
		sigs = append(sigs, sg)
	}
	stx := &action.SignedTx{RawTx: raw, Signatures: sigs}
	b, err := serialize.GetSerializer(serialize.NETWORK).Serialize(stx)
	if err != nil {
		return nil
	}
	return &Tx{Bytes: b, Kind: tx.Type.String() + "/forge:" + v}
}

func init() { Register(Impersonator{}) }

package main

// The map-order seam (DESIGN 2.11): every `for k, v := range m` over a map in the repository's packages that the
// application (package app) is built from is rewritten, in the build overlay only, into
//
//	{ m_ := m; keys_ := make([]K, 0, len(m_)); for k_ := range m_ { keys_ = append(keys_, k_) }
//	  verifmap.Arrange("<site>", &keys_)
//	  for _, k := range keys_ { v, ok_ := m_[k]; if !ok_ { continue }; <body> } }
//
// With no policy installed verifmap.Arrange leaves the keys in the order Go's native iteration produced, so the
// rewritten program is an ordinary execution of the original one; with a policy the simulator dictates the order
// for the node whose call is in flight. Entries deleted before they are reached are skipped and entries added
// during the loop are not visited, both of which Go's specification allows.
//
// Type information comes from the standard library only: `go list -export -deps` provides export data for every
// dependency, the repository's own packages are type-checked from source with go/types. A rewritten package is
// type-checked again; if that fails the package keeps its original files (reported on stderr and in
// maporder.json), so that an unusual construct can cost the seam for one package but never the build.

import (
	"bytes"
	"encoding/json"
	"fmt"
	"go/ast"
	"go/importer"
	"go/parser"
	"go/token"
	"go/types"
	"io"
	"os"
	"os/exec"
	"path/filepath"
	"sort"
	"strconv"
	"strings"
)

const mapPkg = "github.com/Oneledger/protocol/utils/verifmap"
const repoModule = "github.com/Oneledger/protocol"

type listedPkg struct {
	ImportPath string
	Dir        string
	GoFiles    []string
	CgoFiles   []string
	Export     string
	Standard   bool
	Module     *struct{ Path string }
	Error      *struct{ Err string }
}

type mapSite struct {
	Site   string `json:"site"`
	Key    string `json:"key,omitempty"`
	Reason string `json:"reason,omitempty"`
}

type mapReport struct {
	Rewritten   []mapSite `json:"rewritten"`
	Unrewritten []mapSite `json:"unrewritten"`
	Dropped     []string  `json:"packages_dropped"`
}

type edit struct {
	off  int
	del  int
	text string
}

// rewriteMaps returns path -> rewritten source for every file with at least one rewritten map loop.
func rewriteMaps(repo string) (map[string][]byte, *mapReport, error) {
	rep := &mapReport{}
	if _, err := os.Stat(filepath.Join(repo, "utils", "verifmap", "order.go")); err != nil {
		return nil, rep, nil // hook package absent: no seam
	}
	cmd := exec.Command("go", "list", "-export", "-deps", "-tags", "verif", "-json=ImportPath,Dir,GoFiles,CgoFiles,Export,Standard,Module,Error", "./app/", "./utils/verifmap/")
	cmd.Dir = repo
	var stderr bytes.Buffer
	cmd.Stderr = &stderr
	out, err := cmd.Output()
	if err != nil {
		return nil, rep, fmt.Errorf("go list -export: %v\n%s", err, clip(stderr.String(), 4000))
	}
	var pkgs []*listedPkg
	dec := json.NewDecoder(bytes.NewReader(out))
	for {
		var p listedPkg
		if err := dec.Decode(&p); err == io.EOF {
			break
		} else if err != nil {
			return nil, rep, err
		}
		pkgs = append(pkgs, &p)
	}
	exports := map[string]string{}
	for _, p := range pkgs {
		if p.Export != "" {
			exports[p.ImportPath] = p.Export
		}
	}
	fset := token.NewFileSet()
	lookup := func(path string) (io.ReadCloser, error) {
		f, ok := exports[path]
		if !ok {
			return nil, fmt.Errorf("no export data for %s", path)
		}
		return os.Open(f)
	}
	result := map[string][]byte{}
	for _, p := range pkgs {
		if p.Standard || p.Module == nil || p.Module.Path != repoModule || p.ImportPath == mapPkg || len(p.CgoFiles) > 0 {
			continue
		}
		files, srcs, paths := []*ast.File{}, [][]byte{}, []string{}
		bad := false
		for _, name := range p.GoFiles {
			path := filepath.Join(p.Dir, name)
			src, err := os.ReadFile(path)
			if err != nil {
				bad = true
				break
			}
			f, err := parser.ParseFile(fset, path, src, parser.ParseComments)
			if err != nil {
				bad = true
				break
			}
			files, srcs, paths = append(files, f), append(srcs, src), append(paths, path)
		}
		if bad {
			continue
		}
		info := &types.Info{Types: map[ast.Expr]types.TypeAndValue{}}
		conf := types.Config{Importer: importer.ForCompiler(fset, "gc", lookup), Error: func(error) {}}
		tpkg, _ := conf.Check(p.ImportPath, fset, files, info) // errors tolerated: untyped sites are skipped
		if tpkg == nil {
			continue
		}
		pkgOut := map[string][]byte{}
		var pkgSites []mapSite
		for i, f := range files {
			rel, _ := filepath.Rel(repo, paths[i])
			edits, sites, skipped := mapEdits(fset, f, srcs[i], info, tpkg, rel)
			rep.Unrewritten = append(rep.Unrewritten, skipped...)
			if len(edits) == 0 {
				continue
			}
			pkgOut[paths[i]] = applyEdits(srcs[i], edits)
			pkgSites = append(pkgSites, sites...)
		}
		if len(pkgOut) == 0 {
			continue
		}
		// second type-check of the rewritten package; on failure the package keeps its files
		if err := recheck(p, pkgOut, lookup); err != nil {
			fmt.Fprintf(os.Stderr, "maporder: package %s keeps its original files: %v\n", p.ImportPath, err)
			rep.Dropped = append(rep.Dropped, p.ImportPath)
			for _, s := range pkgSites {
				s.Reason = "package failed the second type-check"
				rep.Unrewritten = append(rep.Unrewritten, s)
			}
			continue
		}
		for k, v := range pkgOut {
			result[k] = v
		}
		rep.Rewritten = append(rep.Rewritten, pkgSites...)
	}
	sort.Slice(rep.Rewritten, func(i, j int) bool { return rep.Rewritten[i].Site < rep.Rewritten[j].Site })
	sort.Slice(rep.Unrewritten, func(i, j int) bool { return rep.Unrewritten[i].Site < rep.Unrewritten[j].Site })
	return result, rep, nil
}

func recheck(p *listedPkg, changed map[string][]byte, lookup func(string) (io.ReadCloser, error)) error {
	fset := token.NewFileSet()
	var files []*ast.File
	for _, name := range p.GoFiles {
		path := filepath.Join(p.Dir, name)
		var src interface{}
		if b, ok := changed[path]; ok {
			src = b
		}
		f, err := parser.ParseFile(fset, path, src, 0)
		if err != nil {
			return err
		}
		files = append(files, f)
	}
	var first error
	conf := types.Config{Importer: importer.ForCompiler(fset, "gc", lookup), Error: func(err error) {
		if first == nil {
			first = err
		}
	}}
	conf.Check(p.ImportPath, fset, files, nil)
	return first
}

func mapEdits(fset *token.FileSet, f *ast.File, src []byte, info *types.Info, tpkg *types.Package, rel string) (edits []edit, sites, skipped []mapSite) {
	// local names of imported packages in this file
	importName := map[string]string{}
	usedNames := map[string]bool{}
	for _, im := range f.Imports {
		path, _ := strconv.Unquote(im.Path.Value)
		if im.Name != nil {
			importName[path] = im.Name.Name
			usedNames[im.Name.Name] = true
		}
	}
	labeled := map[ast.Stmt]bool{}
	ast.Inspect(f, func(n ast.Node) bool {
		if l, ok := n.(*ast.LabeledStmt); ok {
			labeled[l.Stmt] = true
		}
		return true
	})
	off := func(p token.Pos) int { return fset.Position(p).Offset }
	count := 0
	ast.Inspect(f, func(n ast.Node) bool {
		rs, ok := n.(*ast.RangeStmt)
		if !ok {
			return true
		}
		tv, ok := info.Types[rs.X]
		if !ok || tv.Type == nil {
			return true
		}
		mt, ok := tv.Type.Underlying().(*types.Map)
		if !ok {
			return true
		}
		pos := fset.Position(rs.For)
		site := fmt.Sprintf("%s:%d", filepath.ToSlash(rel), pos.Line)
		skip := func(why string) bool {
			skipped = append(skipped, mapSite{Site: site, Reason: why})
			return true
		}
		keyIsBlank := rs.Key == nil || isBlank(rs.Key)
		valIsBlank := rs.Value == nil || isBlank(rs.Value)
		if rs.Key == nil {
			return true // `for range m`: no order to observe
		}
		if keyIsBlank && valIsBlank {
			return true
		}
		if rs.Tok != token.DEFINE {
			return skip("assignment form")
		}
		if labeled[rs] {
			return skip("labelled loop")
		}
		if fset.Position(rs.Body.Lbrace).Line != pos.Line {
			return skip("header spans lines")
		}
		unnameable := ""
		qual := func(p *types.Package) string {
			if p == tpkg {
				return ""
			}
			if nm, ok := importName[p.Path()]; ok {
				return nm
			}
			for _, im := range f.Imports {
				path, _ := strconv.Unquote(im.Path.Value)
				if path == p.Path() {
					return p.Name()
				}
			}
			unnameable = p.Path()
			return p.Name()
		}
		keyType := types.TypeString(mt.Key(), qual)
		if unnameable != "" {
			return skip("key type " + keyType + " not nameable in this file (package " + unnameable + " not imported)")
		}
		if named, ok := mt.Key().(*types.Named); ok && named.Obj().Pkg() == tpkg && named.Obj().Parent() != tpkg.Scope() {
			return skip("key type declared inside a function")
		}
		// the value variable: declared once before the loop, exactly like the original's per-loop variable
		// (the module's language version is below go1.22), when its type can be named in this file;
		// otherwise declared per iteration, and then only if the body cannot tell the difference (no address
		// taken, no closure, no defer/go)
		valDecl := ""
		if !valIsBlank {
			unnameable = ""
			valType := types.TypeString(mt.Elem(), qual)
			localType := false
			if named, ok := mt.Elem().(*types.Named); ok && named.Obj().Pkg() == tpkg && named.Obj().Parent() != tpkg.Scope() {
				localType = true
			}
			if unnameable == "" && !localType {
				valDecl = valType
			} else {
				capture := false
				ast.Inspect(rs.Body, func(m ast.Node) bool {
					switch x := m.(type) {
					case *ast.FuncLit, *ast.GoStmt, *ast.DeferStmt:
						capture = true
					case *ast.UnaryExpr:
						if x.Op == token.AND {
							capture = true
						}
					case *ast.CallExpr:
						if _, ok := x.Fun.(*ast.SelectorExpr); ok {
							capture = true // a method with a pointer receiver takes the address implicitly
						}
					}
					return true
				})
				if capture {
					return skip("value type " + valType + " not nameable in this file and the body may capture the value variable")
				}
			}
		}
		count++
		id := fmt.Sprintf("%d_%d", pos.Line, count)
		mv, kv, ok1 := "verifm_"+id, "verifk_"+id, "verifok_"+id
		keyName := "verifkk_" + id
		if !keyIsBlank {
			keyName = rs.Key.(*ast.Ident).Name
		}
		xText := string(src[off(rs.X.Pos()):off(rs.X.End())])
		var b strings.Builder
		fmt.Fprintf(&b, "{ %s := %s; %s := make([]%s, 0, len(%s)); for verifi_%s := range %s { %s = append(%s, verifi_%s) }; ", mv, xText, kv, keyType, mv, id, mv, kv, kv, id)
		fmt.Fprintf(&b, "verifmap.Arrange(%q, &%s); ", site, kv)
		if valDecl != "" {
			fmt.Fprintf(&b, "var %s %s; var %s bool; ", rs.Value.(*ast.Ident).Name, valDecl, ok1)
		}
		fmt.Fprintf(&b, "for _, %s := range %s { ", keyName, kv)
		if valDecl != "" {
			fmt.Fprintf(&b, "%s, %s = %s[%s]; if !%s { continue }; ", rs.Value.(*ast.Ident).Name, ok1, mv, keyName, ok1)
		} else if valIsBlank {
			fmt.Fprintf(&b, "if _, %s := %s[%s]; !%s { continue }; ", ok1, mv, keyName, ok1)
		} else {
			fmt.Fprintf(&b, "%s, %s := %s[%s]; if !%s { continue }; ", rs.Value.(*ast.Ident).Name, ok1, mv, keyName, ok1)
		}
		start, lbrace := off(rs.For), off(rs.Body.Lbrace)
		edits = append(edits, edit{off: start, del: lbrace + 1 - start, text: b.String()})
		edits = append(edits, edit{off: off(rs.Body.Rbrace) + 1, del: 0, text: " }"})
		sites = append(sites, mapSite{Site: site, Key: keyType})
		return true
	})
	if len(edits) > 0 {
		// import on the line of the package clause (line numbers of the file stay as they are)
		end := off(f.Name.End())
		edits = append(edits, edit{off: end, del: 0, text: "; import verifmap " + strconv.Quote(mapPkg)})
	}
	return
}

func isBlank(e ast.Expr) bool {
	id, ok := e.(*ast.Ident)
	return ok && id.Name == "_"
}

func applyEdits(src []byte, edits []edit) []byte {
	// descending offsets; for equal offsets insertions keep their relative order (closing braces of nested
	// loops ending at the same place are interchangeable)
	sort.SliceStable(edits, func(i, j int) bool { return edits[i].off > edits[j].off })
	out := append([]byte(nil), src...)
	for _, e := range edits {
		var nb []byte
		nb = append(nb, out[:e.off]...)
		nb = append(nb, e.text...)
		nb = append(nb, out[e.off+e.del:]...)
		out = nb
	}
	return out
}

func clip(s string, n int) string {
	if len(s) > n {
		return s[:n]
	}
	return s
}

package main

import (
	"fmt"
	"math/rand"
	"os"
	"sort"
	"strings"

	"olsim/core"
	"olsim/gen"
	"olsim/props"
	"olsim/runner"
)

// dumpkeys: runs one C01-style history and prints the committed key space grouped by prefix.
func dumpKeys(seed uint64, names string) {
	out := runner.SilenceStdout()
	p := props.Registry["C01"].(*props.ClusterProp)
	rng := rand.New(rand.NewSource(int64(seed)))
	_ = rng
	p2 := &props.ClusterProp{Id: "DUMP", MakeSetup: func(rng *rand.Rand, tier string, seed uint64) *props.Setup {
		su := p.MakeSetup(rng, tier, seed)
		su.Replicas = su.Replicas[:1]
		su.Policy = nil
		su.Blocks = 40
		if names != "" {
			su.Gens = gen.ByName(strings.Split(names, ",")...)
		}
		return su
	}, MakeOracle: func(e *core.Engine, tr *core.Trace) props.Oracle { return props.NopOracle{} }}
	ro := props.RunForDump(p2, seed, func(e *core.Engine) {
		d := e.C.Ref().Dump()
		groups := map[string][]core.KV{}
		for _, kv := range d {
			parts := strings.SplitN(kv.K, "_", 3)
			g := parts[0]
			if len(parts) > 2 && len(parts[1]) <= 12 {
				g += "_" + parts[1]
			}
			groups[g] = append(groups[g], kv)
		}
		ks := make([]string, 0, len(groups))
		for k := range groups {
			ks = append(ks, k)
		}
		sort.Strings(ks)
		for _, k := range ks {
			fmt.Fprintf(out, "== %q (%d)\n", k, len(groups[k]))
			for i, kv := range groups[k] {
				if i >= 3 {
					break
				}
				v := string(kv.V)
				if len(v) > 160 {
					v = v[:160] + "..."
				}
				fmt.Fprintf(out, "   %q = %q\n", kv.K, v)
			}
		}
	})
	_ = ro
	_ = os.Stdout
}

package main

import (
	"fmt"
	"math/rand"
	"os"
	"sort"
	"strings"

	"olsim/core"
	"olsim/props"
	"olsim/runner"
)

// dumpkeys: runs one C01-style history and prints the committed key space grouped by prefix.
func dumpKeys(seed uint64) {
	out := runner.SilenceStdout()
	p := props.Registry["C01"].(*props.ClusterProp)
	rng := rand.New(rand.NewSource(int64(seed)))
	su := p.MakeSetup(rng, "quick", seed)
	su.Replicas = su.Replicas[:1]
	tr := &core.Trace{Property: "C01", Seed: seed, Knobs: su.Knobs, Replicas: su.Replicas}
	_ = tr
	ro := props.RunForDump(p, seed, func(e *core.Engine) {
		d := e.C.Ref().Dump()
		groups := map[string][]core.KV{}
		for _, kv := range d {
			parts := strings.SplitN(kv.K, "_", 3)
			g := parts[0]
			if len(parts) > 2 && len(parts[1]) <= 12 {
				g += "_" + parts[1]
			}
			groups[g] = append(groups[g], kv)
		}
		ks := make([]string, 0, len(groups))
		for k := range groups {
			ks = append(ks, k)
		}
		sort.Strings(ks)
		for _, k := range ks {
			fmt.Fprintf(out, "== %q (%d)\n", k, len(groups[k]))
			for i, kv := range groups[k] {
				if i >= 3 {
					break
				}
				v := string(kv.V)
				if len(v) > 160 {
					v = v[:160] + "..."
				}
				fmt.Fprintf(out, "   %q = %q\n", kv.K, v)
			}
		}
	})
	_ = ro
	_ = os.Stdout
}

package main

import (
	"fmt"
	"os"

	_ "olsim/props"
	"olsim/runner"
)

func main() {
	if len(os.Args) < 2 {
		fmt.Fprintln(os.Stderr, "usage: olsim worker <prop> <tier> | replay <file> | check <prop> <tier>")
		os.Exit(2)
	}
	switch os.Args[1] {
	case "worker":
		os.Exit(runner.WorkerMain(os.Args[2], os.Args[3]))
	case "replay":
		quiet := len(os.Args) > 3 && os.Args[3] == "--json"
		os.Exit(runner.ReplayMain(os.Args[2], quiet))
	case "check":
		os.Exit(runner.CheckMain(os.Args[2], os.Args[3]))
	case "selftest":
		n := 30
		if len(os.Args) > 3 {
			fmt.Sscanf(os.Args[3], "%d", &n)
		}
		os.Exit(runner.SelfTestMain(os.Args[2], n))
	case "selftest-replay":
		n := 30
		if len(os.Args) > 3 {
			fmt.Sscanf(os.Args[3], "%d", &n)
		}
		os.Exit(runner.ReplayFidelityMain(os.Args[2], n))
	case "genstats":
		runs, blocks := 6, 30
		if len(os.Args) > 3 {
			fmt.Sscanf(os.Args[3], "%d", &runs)
		}
		if len(os.Args) > 4 {
			fmt.Sscanf(os.Args[4], "%d", &blocks)
		}
		genStats(os.Args[2], runs, blocks)
	case "dumpkeys":
		names := ""
		if len(os.Args) > 2 {
			names = os.Args[2]
		}
		dumpKeys(12345, names)
	default:
		fmt.Fprintln(os.Stderr, "unknown command", os.Args[1])
		os.Exit(2)
	}
}

package main

import (
	"fmt"
	"math/rand"
	"sort"
	"strings"

	"olsim/core"
	"olsim/gen"
	"olsim/props"
	"olsim/runner"
)

// genstats <gen1,gen2,...> [runs] [blocks]: single-replica runs with only the named generators;
// prints per tx kind ok/fail counts, generator intent labels and sample failure logs.
func genStats(names string, runs, blocks int) {
	out := runner.SilenceStdout()
	gens := gen.ByName(strings.Split(names, ",")...)
	if len(gens) == 0 {
		fmt.Fprintf(out, "no such generators: %s; registered:", names)
		for _, g := range gen.All() {
			fmt.Fprintf(out, " %s", g.Name())
		}
		fmt.Fprintln(out)
		return
	}
	total := map[string]int{}
	logs := map[string]map[string]int{}
	intents := map[string]int{}
	for i := 0; i < runs; i++ {
		seed := uint64(1000 + i)
		var sessRef *gen.Session
		p := &props.ClusterProp{
			Id: "GENSTATS",
			MakeSetup: func(rng *rand.Rand, tier string, seed uint64) *props.Setup {
				k := props.SwarmKnobs(rng)
				su := &props.Setup{Knobs: k, Sess: gen.NewSession()}
				sessRef = su.Sess
				su.Replicas = []core.ReplicaConf{{Identity: "x0", Quiet: true, Recent: 10, Every: 100, Cycles: 10, WitnessInitEarly: true}}
				su.Gens = gens
				su.Blocks = blocks
				su.MaxTx = 16
				su.PlanHook = props.AbsentHook(0.05)
				return su
			},
			MakeOracle: func(e *core.Engine, tr *core.Trace) props.Oracle { return props.NopOracle{} },
		}
		ro := props.RunForDump(p, seed, func(e *core.Engine) {
			ref := e.C.Ref()
			for _, a := range ref.Tr.Attempts {
				if !a.Committed {
					continue
				}
				for j, tb := range a.TxBytes {
					kind := "UNPARSEABLE"
					if tx := core.DecodeTx(tb); tx != nil {
						kind = tx.Type.String()
					}
					if a.Txs[j].Code == 0 {
						total[kind+":ok"]++
					} else {
						total[kind+":fail"]++
						if logs[kind] == nil {
							logs[kind] = map[string]int{}
						}
						l := a.Txs[j].Log
						if len(l) > 140 {
							l = l[:140]
						}
						logs[kind][l]++
					}
				}
			}
		})
		if ro.HarnessErr != "" {
			fmt.Fprintf(out, "seed %d: HARNESS ERROR %s\n", seed, ro.HarnessErr)
		}
		for _, f := range ro.Foreign {
			fmt.Fprintf(out, "seed %d: run stopped early: %s\n", seed, f)
		}
		if sessRef != nil {
			for _, t := range sessRef.Sent {
				intents[t.Kind]++
			}
		}
	}
	ks := make([]string, 0, len(total))
	for k := range total {
		ks = append(ks, k)
	}
	sort.Strings(ks)
	fmt.Fprintf(out, "== delivered transactions by kind and result (%d runs x %d blocks)\n", runs, blocks)
	for _, k := range ks {
		fmt.Fprintf(out, "  %-45s %d\n", k, total[k])
	}
	fmt.Fprintf(out, "== generator intent labels\n")
	is := make([]string, 0, len(intents))
	for k := range intents {
		is = append(is, k)
	}
	sort.Strings(is)
	for _, k := range is {
		fmt.Fprintf(out, "  %-45s %d\n", k, intents[k])
	}
	fmt.Fprintf(out, "== failure logs (top 6 per kind)\n")
	lk := make([]string, 0, len(logs))
	for k := range logs {
		lk = append(lk, k)
	}
	sort.Strings(lk)
	for _, k := range lk {
		type kv struct {
			l string
			n int
		}
		var arr []kv
		for l, n := range logs[k] {
			arr = append(arr, kv{l, n})
		}
		sort.Slice(arr, func(i, j int) bool { return arr[i].n > arr[j].n || (arr[i].n == arr[j].n && arr[i].l < arr[j].l) })
		for i, a := range arr {
			if i >= 6 {
				break
			}
			fmt.Fprintf(out, "  %s  x%d  %q\n", k, a.n, a.l)
		}
	}
}

package ledger

import (
	"math/big"
	"strings"

	"github.com/Oneledger/protocol/external_apps/bid/bid_data"
	"github.com/Oneledger/protocol/serialize"
)

// BidLocked: bid conversation id -> locked offer amount (escrow held by the bid app), per currency.
type bidLocked struct {
	Conv string
	Cur  string
	Amt  *big.Int
}

func init() {
	extDecoders = append(extDecoders, func(l *Ledger, k string, v []byte) bool {
		if !strings.HasPrefix(k, "extBidOffer_") {
			return false
		}
		o := &bid_data.BidOffer{}
		if err := serialize.GetSerializer(serialize.PERSISTENT).Deserialize(v, o); err != nil {
			l.problem("undecodable bid offer %q: %v", k, err)
			return true
		}
		x := new(big.Int).Set(o.Amount.Value.BigInt())
		l.neg(k, x)
		if o.AmountStatus == bid_data.BidAmountLocked {
			l.BidEscrow = append(l.BidEscrow, bidLocked{Conv: string(o.BidConvId), Cur: o.Amount.Currency, Amt: x})
		}
		l.raw("extBidOffer_", k, v)
		return true
	})
	extTotals = append(extTotals, func(l *Ledger, t *Totals) {
		for _, b := range l.BidEscrow {
			t.add(b.Cur, "bid_escrow", b.Amt)
		}
	})
}

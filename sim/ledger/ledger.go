// Package ledger decodes a committed state dump by key prefix into typed records. Values are
// decoded with the repository's own serializers/types (so an encoding change does not break the
// harness) but every sum is the harness's own arithmetic.
package ledger

import (
	"fmt"
	"math/big"
	"sort"
	"strconv"
	"strings"

	"github.com/Oneledger/protocol/data/balance"
	"github.com/Oneledger/protocol/data/delegation"
	"github.com/Oneledger/protocol/serialize"
)

var e18 = new(big.Int).Exp(big.NewInt(10), big.NewInt(18), nil)

// Ledger is the decoded value-bearing content of one committed state.
type Ledger struct {
	// Bal[addr][currency]; addr is the textual form used in keys ("0lt"+hex of the raw address bytes)
	Bal map[string]map[string]*big.Int
	// fee store entries (fee currency = OLT), key = hex of raw address bytes; "pool" for the pool
	Fee map[string]*big.Int
	// staking (whole OLT units)
	StakeValTotal map[string]*big.Int            // _t_<validator>
	StakeVD       map[string]map[string]*big.Int // _e_<validator>_<delegator>
	StakeLocked   map[string]*big.Int            // _d_e_<delegator>
	StakeFree     map[string]*big.Int            // _d_b_<delegator>  (matured, withdrawable)
	StakeMature   map[int64]map[string]*big.Int  // _m_<height> -> delegator -> unlocking amount
	// network delegation (nue)
	DelegActive  map[string]*big.Int
	DelegPending map[int64]map[string]*big.Int
	// delegation rewards (nue)
	DelegRwBalance map[string]*big.Int
	DelegRwPending map[int64]map[string]*big.Int
	DelegRwTotal   *big.Int
	// proposal funds (nue): proposal -> funder -> amount ; totals kept separately
	PropFunds      map[string]map[string]*big.Int
	PropFundsTotal map[string]*big.Int
	// validator reward records (claims on the rewards pool; never summed as value)
	RwMatured   map[string]*big.Int // rwcum_balance_
	RwWithdrawn map[string]*big.Int // rwcum_withdrawn_
	BidEscrow   []bidLocked
	// other families: raw values by family name
	Raw map[string]map[string][]byte
	// problems met while decoding (unknown prefix with amount-like content, undecodable values)
	Problems []string
	Negative []string // decoded amounts that are negative
}

func newLedger() *Ledger {
	return &Ledger{
		Bal: map[string]map[string]*big.Int{}, Fee: map[string]*big.Int{},
		StakeValTotal: map[string]*big.Int{}, StakeVD: map[string]map[string]*big.Int{}, StakeLocked: map[string]*big.Int{},
		StakeFree: map[string]*big.Int{}, StakeMature: map[int64]map[string]*big.Int{},
		DelegActive: map[string]*big.Int{}, DelegPending: map[int64]map[string]*big.Int{},
		DelegRwBalance: map[string]*big.Int{}, DelegRwPending: map[int64]map[string]*big.Int{}, DelegRwTotal: new(big.Int),
		PropFunds: map[string]map[string]*big.Int{}, PropFundsTotal: map[string]*big.Int{},
		RwMatured: map[string]*big.Int{}, RwWithdrawn: map[string]*big.Int{},
		Raw: map[string]map[string][]byte{},
	}
}

func decAmount(v []byte) (*big.Int, error) {
	a := balance.NewAmount(0)
	if err := serialize.GetSerializer(serialize.PERSISTENT).Deserialize(v, a); err != nil {
		return nil, err
	}
	return new(big.Int).Set(a.BigInt()), nil
}

func decCoin(v []byte) (string, *big.Int, error) {
	c := &balance.Coin{}
	if err := serialize.GetSerializer(serialize.PERSISTENT).Deserialize(v, c); err != nil {
		return "", nil, err
	}
	if c.Amount == nil {
		return c.Currency.Name, new(big.Int), nil
	}
	return c.Currency.Name, new(big.Int).Set(c.Amount.BigInt()), nil
}

// families whose values never carry value (recorded raw, not summed)
var rawFamilies = []string{"g_", "v_", "purged_", "w_", "es_", "rwz_", "ri_", "rwaddr_", "d_", "etht_", "ethfailed_", "ethsuccess_", "btct_",
	"propActive", "propPassed", "propFailed", "propFinalized", "propFinalizeFailed", "propVotes", "keeper_", "contracts_", "intx_", "extBidConvActive", "extBidConvSucceed", "extBidConvCancelled", "extBidConvExpired", "extBidConvRejected"}

// Decode builds the ledger from a dump.
func Decode(dump map[string][]byte) *Ledger {
	l := newLedger()
	keys := make([]string, 0, len(dump))
	for k := range dump {
		keys = append(keys, k)
	}
	sort.Strings(keys)
	for _, k := range keys {
		v := dump[k]
		l.decodeOne(k, v)
	}
	return l
}

func (l *Ledger) neg(k string, x *big.Int) {
	if x != nil && x.Sign() < 0 {
		l.Negative = append(l.Negative, fmt.Sprintf("%q = %s", k, x.String()))
	}
}

func (l *Ledger) problem(format string, a ...interface{}) {
	if len(l.Problems) < 50 {
		l.Problems = append(l.Problems, fmt.Sprintf(format, a...))
	}
}

func (l *Ledger) raw(fam, k string, v []byte) {
	if l.Raw[fam] == nil {
		l.Raw[fam] = map[string][]byte{}
	}
	l.Raw[fam][k] = v
}

func (l *Ledger) decodeOne(k string, v []byte) {
	switch {
	case strings.HasPrefix(k, "b_"):
		rest := k[2:]
		i := strings.LastIndex(rest, "_")
		if i < 0 {
			l.problem("balance key without currency: %q", k)
			return
		}
		addr, cur := rest[:i], rest[i+1:]
		x, err := decAmount(v)
		if err != nil {
			l.problem("undecodable balance %q: %v", k, err)
			return
		}
		if l.Bal[addr] == nil {
			l.Bal[addr] = map[string]*big.Int{}
		}
		l.Bal[addr][cur] = x
		l.neg(k, x)
	case strings.HasPrefix(k, "f_"):
		x, err := decAmount(v)
		if err != nil {
			l.problem("undecodable fee entry %q: %v", k, err)
			return
		}
		name := fmt.Sprintf("%x", k[2:])
		if k[2:] == "00000000000000000000" {
			name = "pool"
		}
		l.Fee[name] = x
		l.neg(k, x)
	case strings.HasPrefix(k, "st__t_"):
		l.amt(k, v, func(x *big.Int) { l.StakeValTotal[k[len("st__t_"):]] = x })
	case strings.HasPrefix(k, "st__e_"):
		p := strings.Split(k[len("st__e_"):], "_")
		if len(p) != 2 {
			l.problem("bad validator-delegator key %q", k)
			return
		}
		l.amt(k, v, func(x *big.Int) {
			if l.StakeVD[p[0]] == nil {
				l.StakeVD[p[0]] = map[string]*big.Int{}
			}
			l.StakeVD[p[0]][p[1]] = x
		})
	case strings.HasPrefix(k, "st__d_e_"):
		l.amt(k, v, func(x *big.Int) { l.StakeLocked[k[len("st__d_e_"):]] = x })
	case strings.HasPrefix(k, "st__d_b_"):
		l.amt(k, v, func(x *big.Int) { l.StakeFree[k[len("st__d_b_"):]] = x })
	case strings.HasPrefix(k, "st__m_"):
		h, err := strconv.ParseInt(k[len("st__m_"):], 10, 64)
		if err != nil {
			l.problem("bad mature key %q", k)
			return
		}
		mb := &delegation.MatureBlock{}
		if err := serialize.GetSerializer(serialize.PERSISTENT).Deserialize(v, mb); err != nil {
			l.problem("undecodable mature block %q: %v", k, err)
			return
		}
		for _, d := range mb.Data {
			if d == nil {
				continue
			}
			if l.StakeMature[h] == nil {
				l.StakeMature[h] = map[string]*big.Int{}
			}
			a := d.Address.String()
			x := new(big.Int).Set(d.Amount.BigInt())
			if cur, ok := l.StakeMature[h][a]; ok {
				x.Add(x, cur)
			}
			l.StakeMature[h][a] = x
			l.neg(k, d.Amount.BigInt())
		}
	case strings.HasPrefix(k, "st_"):
		l.problem("unknown staking record %q", k)
	case strings.HasPrefix(k, "deleg_a_"):
		cur, x, err := decCoin(v)
		if err != nil || (cur != "OLT" && x.Sign() != 0) {
			l.problem("bad active delegation %q cur=%q err=%v", k, cur, err)
			return
		}
		l.DelegActive[k[len("deleg_a_"):]] = x
		l.neg(k, x)
	case strings.HasPrefix(k, "deleg_p_"):
		p := strings.SplitN(k[len("deleg_p_"):], "_", 2)
		h, err1 := strconv.ParseInt(p[0], 10, 64)
		cur, x, err := decCoin(v)
		if len(p) != 2 || err1 != nil || err != nil || (cur != "OLT" && x.Sign() != 0) {
			l.problem("bad pending delegation %q cur=%q err=%v", k, cur, err)
			return
		}
		if l.DelegPending[h] == nil {
			l.DelegPending[h] = map[string]*big.Int{}
		}
		l.DelegPending[h][p[1]] = x
		l.neg(k, x)
	case strings.HasPrefix(k, "deleg_"):
		l.problem("unknown network delegation record %q", k)
	case strings.HasPrefix(k, "delegRwz_balance_"):
		l.amt(k, v, func(x *big.Int) { l.DelegRwBalance[k[len("delegRwz_balance_"):]] = x })
	case strings.HasPrefix(k, "delegRwz_pending_"):
		p := strings.SplitN(k[len("delegRwz_pending_"):], "_", 2)
		h, err1 := strconv.ParseInt(p[0], 10, 64)
		if len(p) != 2 || err1 != nil {
			l.problem("bad pending reward key %q", k)
			return
		}
		l.amt(k, v, func(x *big.Int) {
			if l.DelegRwPending[h] == nil {
				l.DelegRwPending[h] = map[string]*big.Int{}
			}
			l.DelegRwPending[h][p[1]] = x
		})
	case k == "delegRwz_total_rewards":
		l.amt(k, v, func(x *big.Int) { l.DelegRwTotal = x })
	case strings.HasPrefix(k, "delegRwz_"):
		l.problem("unknown delegation reward record %q", k)
	case strings.HasPrefix(k, "propFunds_"):
		rest := k[len("propFunds_"):]
		switch {
		case strings.HasPrefix(rest, "t_"):
			l.amt(k, v, func(x *big.Int) { l.PropFundsTotal[rest[2:]] = x })
		case strings.HasPrefix(rest, "i_"):
			r := rest[2:]
			i := strings.LastIndex(r, "_")
			if i < 0 {
				l.problem("bad individual fund key %q", k)
				return
			}
			pid, funder := r[:i], r[i+1:]
			l.amt(k, v, func(x *big.Int) {
				if l.PropFunds[pid] == nil {
					l.PropFunds[pid] = map[string]*big.Int{}
				}
				l.PropFunds[pid][funder] = x
			})
		default:
			l.problem("unknown proposal fund record %q", k)
		}
	case strings.HasPrefix(k, "rwcum_balance_"):
		l.amt(k, v, func(x *big.Int) { l.RwMatured[k[len("rwcum_balance_"):]] = x })
	case strings.HasPrefix(k, "rwcum_withdrawn_"):
		l.amt(k, v, func(x *big.Int) { l.RwWithdrawn[k[len("rwcum_withdrawn_"):]] = x })
	case strings.HasPrefix(k, "rwcum_"):
		l.raw("rwcum_", k, v)
	default:
		for _, f := range rawFamilies {
			if strings.HasPrefix(k, f) {
				l.raw(f, k, v)
				return
			}
		}
		if decodeExt(l, k, v) {
			return
		}
		l.raw("?", k, v)
		// an unknown record that parses as an amount could hide value
		if x, err := decAmount(v); err == nil && x.Sign() != 0 {
			l.problem("unknown prefix holding an amount: %q = %s", k, x)
		} else if _, x, err := decCoin(v); err == nil && x != nil && x.Sign() != 0 {
			l.problem("unknown prefix holding a coin: %q", k)
		} else {
			l.problem("unknown key family: %q", k)
		}
	}
}

func (l *Ledger) amt(k string, v []byte, set func(x *big.Int)) {
	x, err := decAmount(v)
	if err != nil {
		l.problem("undecodable amount %q: %v", k, err)
		return
	}
	l.neg(k, x)
	set(x)
}

// decodeExt lets other files of this package claim key families (bid app, ...).
var extDecoders []func(l *Ledger, k string, v []byte) bool

func decodeExt(l *Ledger, k string, v []byte) bool {
	for _, d := range extDecoders {
		if d(l, k, v) {
			return true
		}
	}
	return false
}

func sum(m map[string]*big.Int) *big.Int {
	t := new(big.Int)
	for _, x := range m {
		t.Add(t, x)
	}
	return t
}

// Totals is the harness's own sum of all value held on chain, per currency, split in components.
type Totals struct {
	ByCurrency map[string]*big.Int            // grand total
	Parts      map[string]map[string]*big.Int // currency -> component -> amount
}

func (t *Totals) add(cur, part string, x *big.Int) {
	if t.ByCurrency[cur] == nil {
		t.ByCurrency[cur] = new(big.Int)
		t.Parts[cur] = map[string]*big.Int{}
	}
	t.ByCurrency[cur].Add(t.ByCurrency[cur], x)
	if t.Parts[cur][part] == nil {
		t.Parts[cur][part] = new(big.Int)
	}
	t.Parts[cur][part].Add(t.Parts[cur][part], x)
}

// Totals computes the value totals. excludeAddrs are counter addresses (wrapped-supply counters) that
// hold bookkeeping numbers, not value.
func (l *Ledger) Totals(excludeAddrs map[string]bool) *Totals {
	t := &Totals{ByCurrency: map[string]*big.Int{}, Parts: map[string]map[string]*big.Int{}}
	for a, m := range l.Bal {
		if excludeAddrs[a] {
			continue
		}
		for cur, x := range m {
			t.add(cur, "balances", x)
		}
	}
	t.add("OLT", "fee_store", sum(l.Fee))
	stake := new(big.Int)
	stake.Add(stake, sum(l.StakeLocked))
	stake.Add(stake, sum(l.StakeFree))
	for _, m := range l.StakeMature {
		stake.Add(stake, sum(m))
	}
	t.add("OLT", "stake", new(big.Int).Mul(stake, e18))
	for _, m := range l.DelegPending {
		t.add("OLT", "undelegating", sum(m))
	}
	t.add("OLT", "deleg_reward_claims", sum(l.DelegRwBalance))
	for _, m := range l.DelegRwPending {
		t.add("OLT", "deleg_reward_claims", sum(m))
	}
	for _, m := range l.PropFunds {
		t.add("OLT", "proposal_funds", sum(m))
	}
	for _, f := range extTotals {
		f(l, t)
	}
	return t
}

var extTotals []func(l *Ledger, t *Totals)

// DelegRewardClaims is Σ reward balance + Σ pending rewards.
func (l *Ledger) DelegRewardClaims() *big.Int {
	x := sum(l.DelegRwBalance)
	for _, m := range l.DelegRwPending {
		x.Add(x, sum(m))
	}
	return x
}

// Holdings returns, per account, everything the property lists as the account's own: balances in
// every currency, locked/unlocking/withdrawable stake (in nue), delegated and undelegating amounts,
// delegation reward claims. Key: addr -> currency -> amount.
func (l *Ledger) Holdings() map[string]map[string]*big.Int {
	h := map[string]map[string]*big.Int{}
	add := func(a, cur string, x *big.Int) {
		if h[a] == nil {
			h[a] = map[string]*big.Int{}
		}
		if h[a][cur] == nil {
			h[a][cur] = new(big.Int)
		}
		h[a][cur].Add(h[a][cur], x)
	}
	for a, m := range l.Bal {
		for cur, x := range m {
			add(a, cur, x)
		}
	}
	for a, x := range l.StakeLocked {
		add(a, "OLT", new(big.Int).Mul(x, e18))
	}
	for a, x := range l.StakeFree {
		add(a, "OLT", new(big.Int).Mul(x, e18))
	}
	for _, m := range l.StakeMature {
		for a, x := range m {
			add(a, "OLT", new(big.Int).Mul(x, e18))
		}
	}
	for a, x := range l.DelegActive {
		add(a, "OLT", x)
	}
	for _, m := range l.DelegPending {
		for a, x := range m {
			add(a, "OLT", x)
		}
	}
	for a, x := range l.DelegRwBalance {
		add(a, "OLT", x)
	}
	for _, m := range l.DelegRwPending {
		for a, x := range m {
			add(a, "OLT", x)
		}
	}
	return h
}
